//! Iterator-protocol oracle: an iterator handed out by the library must behave like the sequence it
//! stands for under *every* way the std `Iterator` API can consume it, not only under `next()` /
//! `collect()`. A script of consuming calls (next, nth, skip, step_by, size_hint, count, last, ...)
//! is applied to the library iterator and to the `Vec` of the expected items; every observable result
//! must agree. Only calls whose result the `Iterator` contract fixes are compared: nothing is asked of
//! an iterator after it returned `None` (it need not be fused), and `size_hint` must only *bracket*
//! the true remaining count. For iterators that are `Clone`, a clone taken in mid-stream must continue
//! exactly like the original (`CloneRest`).

use serde::{Deserialize, Serialize};
use std::fmt::Debug;

#[derive(Serialize, Deserialize, Debug, Clone, Copy, PartialEq)]
pub enum ItOp {
    Next,
    Nth(u8),
    Hint,
    Skip(u8),
    StepBy(u8),
    /// `by_ref().take(n)` collected
    TakeRef(u8),
    Count,
    Last,
    Fold,
    /// (iterators that are `Clone` only, otherwise a no-op) clone the iterator as it stands, drain the
    /// CLONE and compare it with what remains; the original continues with the rest of the script
    CloneRest,
}

pub fn script_strategy(max_ops: usize) -> proptest::strategy::BoxedStrategy<Vec<ItOp>> {
    use proptest::prelude::*;
    let op = prop_oneof![
        5 => Just(ItOp::Next),
        4 => (0u8..=5).prop_map(ItOp::Nth),
        2 => Just(ItOp::Hint),
        2 => (0u8..=4).prop_map(ItOp::Skip),
        2 => (1u8..=4).prop_map(ItOp::StepBy),
        2 => (0u8..=4).prop_map(ItOp::TakeRef),
        1 => Just(ItOp::Count),
        1 => Just(ItOp::Last),
        1 => Just(ItOp::Fold),
        2 => Just(ItOp::CloneRest),
    ];
    proptest::collection::vec(op, 1..=max_ops).boxed()
}

pub struct Outcome {
    /// a positional call (nth / skip / step_by / take) was made on an iterator that had already been advanced
    pub positional_after_advance: bool,
    /// a clone of an already advanced iterator was drained and compared
    pub clone_after_advance: bool,
    pub ops_done: usize,
}

/// Drives `real` and the model through `script`; afterwards drains both and compares the rest.
/// `what` names the iterator in messages; `key` projects an item to something comparable.
///
/// The library iterator keeps its concrete type until the first adaptor (skip / step_by) wraps it, so
/// that overrides of `nth`, `count`, `last`, `fold` and `size_hint` on the library type are the ones
/// called (through `Box<dyn Iterator>` only `next`, `nth` and `size_hint` are forwarded).
pub fn drive<'a, T: 'a, K: PartialEq + Debug + Clone + 'a, I: Iterator<Item = T> + 'a>(what: &str, real: I, model: Vec<K>, key: impl Fn(T) -> K + 'a, script: &[ItOp]) -> Result<Outcome, String> {
    drive_inner(what, real, model, key, script, None)
}

/// as `drive`, for iterators that implement `Clone`: the `CloneRest` steps of the script are carried out
pub fn drive_cl<'a, T: 'a, K: PartialEq + Debug + Clone + 'a, I: Iterator<Item = T> + Clone + 'a>(what: &str, real: I, model: Vec<K>, key: impl Fn(T) -> K + 'a, script: &[ItOp]) -> Result<Outcome, String> {
    drive_inner(what, real, model, key, script, Some(|i: &I| i.clone()))
}

fn drive_inner<'a, T: 'a, K: PartialEq + Debug + Clone + 'a, I: Iterator<Item = T> + 'a>(what: &str, real: I, model: Vec<K>, key: impl Fn(T) -> K + 'a, script: &[ItOp], cloner: Option<fn(&I) -> I>) -> Result<Outcome, String> {
    // split the script at the first adaptor: the prefix runs on the concrete type
    let cut = script.iter().position(|o| matches!(o, ItOp::Skip(_) | ItOp::StepBy(_))).unwrap_or(script.len());
    let total = model.len();
    let mut pos = 0usize; // items of `model` consumed so far (concrete phase)
    let mut real = real;
    let mut advanced = false;
    let mut out = Outcome { positional_after_advance: false, clone_after_advance: false, ops_done: 0 };
    let mut trace: Vec<ItOp> = Vec::new();
    // no iterator may yield more than this many items in one draining call (guards against rewinding iterators)
    let cap = total + 3;
    for &op in &script[..cut] {
        trace.push(op);
        out.ops_done += 1;
        match op {
            ItOp::Next => {
                let (r, m) = (real.next().map(&key), model.get(pos).cloned());
                if r != m {
                    return Err(format!("{}: after {:?} next() returns {:?}, the sequence continues with {:?}", what, trace, r, m));
                }
                advanced = true;
                if m.is_none() {
                    return Ok(out);
                }
                pos += 1;
            }
            ItOp::Nth(n) => {
                out.positional_after_advance |= advanced;
                let (r, m) = (real.nth(n as usize).map(&key), model.get(pos + n as usize).cloned());
                if r != m {
                    return Err(format!("{}: after {:?} nth({}) returns {:?}, the sequence gives {:?}", what, trace, n, r, m));
                }
                advanced = true;
                if m.is_none() {
                    return Ok(out);
                }
                pos += n as usize + 1;
            }
            ItOp::Hint => {
                let (lo, hi) = real.size_hint();
                let rem = total - pos;
                if lo > rem || hi.map_or(false, |h| h < rem) {
                    return Err(format!("{}: after {:?} size_hint() = ({}, {:?}) does not bracket the {} items that remain", what, trace, lo, hi, rem));
                }
            }
            ItOp::TakeRef(n) => {
                let r: Vec<K> = real.by_ref().take(n as usize).map(&key).collect();
                let end = (pos + n as usize).min(total);
                let m: Vec<K> = model[pos..end].to_vec();
                if r != m {
                    return Err(format!("{}: after {:?} by_ref().take({}) yields {:?}, the sequence gives {:?}", what, trace, n, r, m));
                }
                advanced |= n > 0;
                if m.len() < n as usize {
                    return Ok(out); // ran into the end: nothing may be asked afterwards
                }
                pos = end;
            }
            ItOp::CloneRest => {
                if let Some(cl) = cloner {
                    let copy = cl(&real);
                    let r: Vec<K> = copy.take(cap).map(&key).collect();
                    let m: Vec<K> = model[pos..].to_vec();
                    if r != m {
                        return Err(format!("{}: after {:?} a clone() of the iterator yields {:?}, the rest of the sequence is {:?}", what, trace, r, m));
                    }
                    out.clone_after_advance |= advanced;
                }
            }
            ItOp::Count => {
                let m = total - pos;
                let r = real.count();
                if r != m {
                    return Err(format!("{}: after {:?} count() = {}, {} items remain", what, trace, r, m));
                }
                return Ok(out);
            }
            ItOp::Last => {
                let m = if pos < total { model.last().cloned() } else { None };
                let r = real.last().map(&key);
                if r != m {
                    return Err(format!("{}: after {:?} last() = {:?}, the sequence ends with {:?}", what, trace, r, m));
                }
                return Ok(out);
            }
            ItOp::Fold => {
                let m: Vec<K> = model[pos..].to_vec();
                let mut n = 0usize;
                let r: Vec<K> = real.fold(Vec::new(), |mut v, x| {
                    n += 1;
                    if n <= cap {
                        v.push(key(x));
                    }
                    v
                });
                if r != m {
                    return Err(format!("{}: after {:?} fold() visits {:?}, the rest of the sequence is {:?}", what, trace, r, m));
                }
                return Ok(out);
            }
            ItOp::Skip(_) | ItOp::StepBy(_) => unreachable!(),
        }
    }
    let script = &script[cut..];
    if script.is_empty() {
        let m: Vec<K> = model[pos..].to_vec();
        let r: Vec<K> = real.take(cap).map(&key).collect();
        if r != m {
            return Err(format!("{}: after {:?} the remaining items are {:?}, the rest of the sequence is {:?}", what, trace, r, m));
        }
        return Ok(out);
    }
    // ---- adaptor phase: both sides boxed
    let mut real: Box<dyn Iterator<Item = T> + 'a> = Box::new(real);
    let mut model: Box<dyn Iterator<Item = K> + 'a> = Box::new(model.into_iter().skip(pos));
    for &op in script {
        trace.push(op);
        out.ops_done += 1;
        match op {
            ItOp::Next => {
                let (r, m) = (real.next().map(&key), model.next());
                if r != m {
                    return Err(format!("{}: after {:?} next() returns {:?}, the sequence continues with {:?}", what, trace, r, m));
                }
                advanced = true;
                if m.is_none() {
                    return Ok(out);
                }
            }
            ItOp::Nth(n) => {
                out.positional_after_advance |= advanced;
                let (r, m) = (real.nth(n as usize).map(&key), model.nth(n as usize));
                if r != m {
                    return Err(format!("{}: after {:?} nth({}) returns {:?}, the sequence gives {:?}", what, trace, n, r, m));
                }
                advanced = true;
                if m.is_none() {
                    return Ok(out);
                }
            }
            ItOp::Hint => {
                let (lo, hi) = real.size_hint();
                let rem = model.size_hint().0; // exact for vec::IntoIter under skip/step_by
                if lo > rem || hi.map_or(false, |h| h < rem) {
                    return Err(format!("{}: after {:?} size_hint() = ({}, {:?}) does not bracket the {} items that remain", what, trace, lo, hi, rem));
                }
            }
            ItOp::Skip(n) => {
                out.positional_after_advance |= advanced;
                real = Box::new(real.skip(n as usize));
                model = Box::new(model.skip(n as usize));
            }
            ItOp::StepBy(n) => {
                out.positional_after_advance |= advanced;
                real = Box::new(real.step_by(n.max(1) as usize));
                model = Box::new(model.step_by(n.max(1) as usize));
            }
            ItOp::TakeRef(n) => {
                let r: Vec<K> = real.by_ref().take(n as usize).map(&key).collect();
                let m: Vec<K> = model.by_ref().take(n as usize).collect();
                if r != m {
                    return Err(format!("{}: after {:?} by_ref().take({}) yields {:?}, the sequence gives {:?}", what, trace, n, r, m));
                }
                advanced |= n > 0;
                if m.len() < n as usize {
                    return Ok(out);
                }
            }
            ItOp::CloneRest => {}
            ItOp::Count => {
                let m = model.count();
                // count() of a rewinding iterator would not terminate: bound it through take
                let r = real.take(cap).count();
                if r != m {
                    return Err(format!("{}: after {:?} count() = {}{}, {} items remain", what, trace, r, if r == cap { " (or more)" } else { "" }, m));
                }
                return Ok(out);
            }
            ItOp::Last => {
                let m = model.last();
                let mut n = 0usize;
                let mut r = None;
                for x in real {
                    n += 1;
                    if n > cap {
                        return Err(format!("{}: after {:?} the iterator yields more than the {} items of the whole sequence", what, trace, total));
                    }
                    r = Some(key(x));
                }
                if r != m {
                    return Err(format!("{}: after {:?} last() = {:?}, the sequence ends with {:?}", what, trace, r, m));
                }
                return Ok(out);
            }
            ItOp::Fold => {
                let m: Vec<K> = model.collect();
                let r: Vec<K> = real.take(cap).map(&key).collect();
                if r != m {
                    return Err(format!("{}: after {:?} fold() visits {:?}, the rest of the sequence is {:?}", what, trace, r, m));
                }
                return Ok(out);
            }
        }
    }
    let m: Vec<K> = model.collect();
    let r: Vec<K> = real.take(cap).map(&key).collect();
    if r != m {
        return Err(format!("{}: after {:?} the remaining items are {:?}, the rest of the sequence is {:?}", what, trace, r, m));
    }
    Ok(out)
}

/// Two iterators obtained from ONE object (two texts searched with one matcher, two queries on one tree) are
/// alive at the same time and advanced in the order given by `order` (false: first, true: second; then both are
/// drained): each must yield its own sequence.
pub fn drive_pair<T1, T2, K: PartialEq + Debug>(what: &str, mut a: impl Iterator<Item = T1>, ma: Vec<K>, ka: impl Fn(T1) -> K, mut b: impl Iterator<Item = T2>, mb: Vec<K>, kb: impl Fn(T2) -> K, order: &[bool]) -> Result<(), String> {
    let (mut ia, mut ib) = (0usize, 0usize);
    let (mut done_a, mut done_b) = (false, false);
    let cap = order.len() + ma.len() + mb.len() + 4;
    let mut steps = 0usize;
    let mut sched: Vec<bool> = order.to_vec();
    loop {
        steps += 1;
        if steps > cap + 8 {
            return Err(format!("{}: two live iterators do not end", what));
        }
        let second = match sched.first() {
            Some(&s) => {
                sched.remove(0);
                s
            }
            None => done_a,
        };
        if second && !done_b {
            let (r, m) = (b.next().map(&kb), mb.get(ib));
            if r.as_ref() != m {
                return Err(format!("{}: with two iterators alive (advanced in the order {:?}, false = first), item #{} of the second is {:?}, its own sequence has {:?}", what, order, ib, r, m));
            }
            if m.is_none() {
                done_b = true;
            }
            ib += 1;
        } else if !second && !done_a {
            let (r, m) = (a.next().map(&ka), ma.get(ia));
            if r.as_ref() != m {
                return Err(format!("{}: with two iterators alive (advanced in the order {:?}, false = first), item #{} of the first is {:?}, its own sequence has {:?}", what, order, ia, r, m));
            }
            if m.is_none() {
                done_a = true;
            }
            ia += 1;
        }
        if done_a && done_b {
            return Ok(());
        }
        if sched.is_empty() && !done_a && done_b {
            continue;
        }
    }
}
