//! Independent model of rust-bio's pairwise alignment scoring (C01, C02):
//! optimum by definition (all sub-range pairs x plain Gotoh), an O(mn)
//! reference DP with explicit start/end states, and a path validator.

use bio::alignment::pairwise::{MatchFunc, Scoring, MIN_SCORE};
use bio::alignment::{Alignment, AlignmentMode, AlignmentOperation};
use serde::{Deserialize, Serialize};

#[derive(Serialize, Deserialize, Debug, Clone, Copy, PartialEq, Eq)]
pub enum Mode {
    Custom,
    Global,
    Semiglobal,
    Local,
}

impl Mode {
    pub fn name(self) -> &'static str {
        match self {
            Mode::Custom => "custom",
            Mode::Global => "global",
            Mode::Semiglobal => "semiglobal",
            Mode::Local => "local",
        }
    }
    pub fn expected(self) -> AlignmentMode {
        match self {
            Mode::Custom => AlignmentMode::Custom,
            Mode::Global => AlignmentMode::Global,
            Mode::Semiglobal => AlignmentMode::Semiglobal,
            Mode::Local => AlignmentMode::Local,
        }
    }
}

/// Scoring scheme as plain data. Symbols are the letters `a`, `b`, ... (`sigma` of them).
/// Clip order: x prefix, x suffix, y prefix, y suffix; `None` = MIN_SCORE ("forbidden").
#[derive(Serialize, Deserialize, Debug, Clone, PartialEq, Eq)]
pub struct ScoreSpec {
    pub sigma: u8,
    /// row = x symbol, column = y symbol
    pub table: Vec<i32>,
    pub gap_open: i32,
    pub gap_extend: i32,
    pub clips: [Option<i32>; 4],
}

#[derive(Clone)]
pub struct TableFn {
    pub sigma: usize,
    pub table: Vec<i32>,
}

/// symbol class of a byte: the letters 'a'.. map to 0.., every other byte value to `byte % sigma`
/// (so that sequences over the full byte range, including 0x00 and 0xFF, can be scored)
pub fn sym_class(a: u8, sigma: usize) -> usize {
    let l = a.wrapping_sub(b'a') as usize;
    if l < sigma {
        l
    } else {
        a as usize % sigma
    }
}

impl MatchFunc for TableFn {
    fn score(&self, a: u8, b: u8) -> i32 {
        self.table[sym_class(a, self.sigma) * self.sigma + sym_class(b, self.sigma)]
    }
}

impl ScoreSpec {
    pub fn sub(&self, a: u8, b: u8) -> i32 {
        let s = self.sigma as usize;
        self.table[sym_class(a, s) * s + sym_class(b, s)]
    }
    pub fn clip_raw(&self, k: usize) -> i32 {
        self.clips[k].unwrap_or(MIN_SCORE)
    }
    /// clip penalties in force for a mode
    pub fn mode_clips(&self, mode: Mode) -> [Option<i32>; 4] {
        match mode {
            Mode::Custom => self.clips,
            Mode::Global => [None; 4],
            Mode::Semiglobal => [None, None, Some(0), Some(0)],
            Mode::Local => [Some(0); 4],
        }
    }
    /// (match, mismatch) when the table is a constant match/mismatch scheme acceptable to MatchParams
    pub fn uniform(&self) -> Option<(i32, i32)> {
        let s = self.sigma as usize;
        let m = self.table[0];
        let mut mm = None;
        for i in 0..s {
            for j in 0..s {
                let v = self.table[i * s + j];
                if i == j {
                    if v != m {
                        return None;
                    }
                } else {
                    match mm {
                        None => mm = Some(v),
                        Some(w) if w != v => return None,
                        _ => {}
                    }
                }
            }
        }
        let mm = mm.unwrap_or(-1);
        if m >= 0 && mm <= 0 {
            Some((m, mm))
        } else {
            None
        }
    }
    pub fn table_fn(&self) -> TableFn {
        TableFn { sigma: self.sigma as usize, table: self.table.clone() }
    }
    pub fn scoring(&self, with_match_scores: bool) -> Scoring<TableFn> {
        Scoring {
            gap_open: self.gap_open,
            gap_extend: self.gap_extend,
            match_fn: self.table_fn(),
            match_scores: if with_match_scores { self.uniform() } else { None },
            xclip_prefix: self.clip_raw(0),
            xclip_suffix: self.clip_raw(1),
            yclip_prefix: self.clip_raw(2),
            yclip_suffix: self.clip_raw(3),
        }
    }
}

const NEG: i64 = -1_000_000_000_000_000;

fn cp(pen: Option<i32>, used: bool) -> i64 {
    if !used {
        0
    } else {
        match pen {
            Some(v) => v as i64,
            None => NEG,
        }
    }
}

/// Optimum by definition: max over all sub-ranges x[xs..xe], y[ys..ye] of the affine-gap
/// global alignment score of the sub-ranges plus the clip penalty of every non-empty clipped end.
pub fn opt_by_definition(x: &[u8], y: &[u8], sp: &ScoreSpec, clips: [Option<i32>; 4]) -> i64 {
    let (m, n) = (x.len(), y.len());
    let go = sp.gap_open as i64;
    let ge = sp.gap_extend as i64;
    let mut best = NEG * 8;
    for xs in 0..=m {
        for ys in 0..=n {
            let (mm, nn) = (m - xs, n - ys);
            let w = nn + 1;
            let mut s = vec![NEG; (mm + 1) * w];
            let mut ins = vec![NEG; (mm + 1) * w];
            let mut del = vec![NEG; (mm + 1) * w];
            for i in 0..=mm {
                for j in 0..=nn {
                    let k = i * w + j;
                    if i == 0 && j == 0 {
                        s[k] = 0;
                    } else {
                        if i > 0 {
                            ins[k] = (ins[k - w] + ge).max(s[k - w] + go + ge);
                        }
                        if j > 0 {
                            del[k] = (del[k - 1] + ge).max(s[k - 1] + go + ge);
                        }
                        let mut v = ins[k].max(del[k]);
                        if i > 0 && j > 0 {
                            v = v.max(s[k - w - 1] + sp.sub(x[xs + i - 1], y[ys + j - 1]) as i64);
                        }
                        s[k] = v;
                    }
                    let (xe, ye) = (xs + i, ys + j);
                    let total = s[k] + cp(clips[0], xs > 0) + cp(clips[1], xe < m) + cp(clips[2], ys > 0) + cp(clips[3], ye < n);
                    if total > best {
                        best = total;
                    }
                }
            }
        }
    }
    best
}

/// O(mn) reference with explicit start/end states (cross-checked against
/// `opt_by_definition` on every small case of a run).
pub fn opt_reference(x: &[u8], y: &[u8], sp: &ScoreSpec, clips: [Option<i32>; 4]) -> i64 {
    let (m, n) = (x.len(), y.len());
    let go = sp.gap_open as i64;
    let ge = sp.gap_extend as i64;
    let w = n + 1;
    let mut s = vec![NEG; (m + 1) * w];
    let mut ins = vec![NEG; (m + 1) * w];
    let mut del = vec![NEG; (m + 1) * w];
    let mut best = NEG * 8;
    for i in 0..=m {
        for j in 0..=n {
            let k = i * w + j;
            let start = cp(clips[0], i > 0) + cp(clips[2], j > 0);
            if i > 0 {
                ins[k] = (ins[k - w] + ge).max(s[k - w] + go + ge);
            }
            if j > 0 {
                del[k] = (del[k - 1] + ge).max(s[k - 1] + go + ge);
            }
            let mut v = start.max(ins[k]).max(del[k]);
            if i > 0 && j > 0 {
                v = v.max(s[k - w - 1] + sp.sub(x[i - 1], y[j - 1]) as i64);
            }
            s[k] = v;
            let total = v + cp(clips[1], i < m) + cp(clips[3], j < n);
            if total > best {
                best = total;
            }
        }
    }
    best
}

pub struct Validated {
    pub recomputed: i64,
    pub has_gap: bool,
    pub has_clip: bool,
    pub n_ops: usize,
}

/// Validate an alignment returned for (x, y) in `mode` under `sp`, and recompute its score
/// from its operations. Gap runs are maximal runs of equal gap operations in the operation
/// list (a clip op between two gap ops ends the run: upstream fuzz-target convention).
pub fn validate(a: &Alignment, x: &[u8], y: &[u8], sp: &ScoreSpec, mode: Mode) -> Result<Validated, String> {
    use AlignmentOperation::*;
    let (m, n) = (x.len(), y.len());
    if a.xlen != m || a.ylen != n {
        return Err(format!("xlen/ylen = {}/{} but the sequences have lengths {}/{}", a.xlen, a.ylen, m, n));
    }
    if a.mode != mode.expected() {
        return Err(format!("mode field {:?}, expected {:?}", a.mode, mode.expected()));
    }
    if !(a.xstart <= a.xend && a.xend <= m && a.ystart <= a.yend && a.yend <= n) {
        return Err(format!("coordinates out of order/range: x {}..{} of {}, y {}..{} of {}", a.xstart, a.xend, m, a.ystart, a.yend, n));
    }
    let clips = sp.mode_clips(mode);
    let raw = |k: usize| -> i64 { clips[k].unwrap_or(MIN_SCORE) as i64 };
    let custom = mode == Mode::Custom;
    let (mut i, mut j) = if custom { (0usize, 0usize) } else { (a.xstart, a.ystart) };
    let mut score: i64 = 0;
    let mut last: Option<AlignmentOperation> = None;
    let mut has_gap = false;
    let mut has_clip = false;
    let (mut xpre_seen, mut xsuf_seen, mut ypre_seen, mut ysuf_seen) = (false, false, false, false);
    for (idx, op) in a.operations.iter().enumerate() {
        match *op {
            Match | Subst => {
                if !(i >= a.xstart && i < a.xend && j >= a.ystart && j < a.yend) {
                    return Err(format!("op #{} {:?} at cursor ({},{}) outside the aligned ranges x {}..{}, y {}..{}", idx, op, i, j, a.xstart, a.xend, a.ystart, a.yend));
                }
                let eq = x[i] == y[j];
                if eq != (*op == Match) {
                    return Err(format!("op #{} is {:?} but x[{}]={:?} y[{}]={:?}", idx, op, i, x[i] as char, j, y[j] as char));
                }
                score += sp.sub(x[i], y[j]) as i64;
                i += 1;
                j += 1;
            }
            Ins => {
                if !(i >= a.xstart && i < a.xend) {
                    return Err(format!("op #{} Ins at x cursor {} outside the aligned x range {}..{}", idx, i, a.xstart, a.xend));
                }
                score += if last == Some(Ins) { sp.gap_extend as i64 } else { (sp.gap_open + sp.gap_extend) as i64 };
                has_gap = true;
                i += 1;
            }
            Del => {
                if !(j >= a.ystart && j < a.yend) {
                    return Err(format!("op #{} Del at y cursor {} outside the aligned y range {}..{}", idx, j, a.ystart, a.yend));
                }
                score += if last == Some(Del) { sp.gap_extend as i64 } else { (sp.gap_open + sp.gap_extend) as i64 };
                has_gap = true;
                j += 1;
            }
            Xclip(k) => {
                if !custom {
                    return Err(format!("clip operation {:?} present in {} mode (should be filtered)", op, mode.name()));
                }
                if k == 0 {
                    // zero-length clip: no-op
                } else if i == 0 && k == a.xstart && !xpre_seen {
                    xpre_seen = true;
                    score += raw(0);
                    i = k;
                    has_clip = true;
                } else if i == a.xend && i + k == m && !xsuf_seen {
                    xsuf_seen = true;
                    score += raw(1);
                    i = m;
                    has_clip = true;
                } else {
                    return Err(format!("op #{} Xclip({}) at x cursor {} is neither the prefix clip (xstart={}) nor the suffix clip (xend={}, xlen={})", idx, k, i, a.xstart, a.xend, m));
                }
            }
            Yclip(k) => {
                if !custom {
                    return Err(format!("clip operation {:?} present in {} mode (should be filtered)", op, mode.name()));
                }
                if k == 0 {
                } else if j == 0 && k == a.ystart && !ypre_seen {
                    ypre_seen = true;
                    score += raw(2);
                    j = k;
                    has_clip = true;
                } else if j == a.yend && j + k == n && !ysuf_seen {
                    ysuf_seen = true;
                    score += raw(3);
                    j = n;
                    has_clip = true;
                } else {
                    return Err(format!("op #{} Yclip({}) at y cursor {} is neither the prefix clip (ystart={}) nor the suffix clip (yend={}, ylen={})", idx, k, j, a.ystart, a.yend, n));
                }
            }
        }
        last = Some(*op);
    }
    if custom {
        if i != m || j != n {
            return Err(format!("operations end at cursor ({},{}) instead of ({},{}): clip lengths do not add up to the unaligned ends (x {}..{}, y {}..{})", i, j, m, n, a.xstart, a.xend, a.ystart, a.yend));
        }
    } else {
        if i != a.xend || j != a.yend {
            return Err(format!("operations end at cursor ({},{}) instead of (xend,yend)=({},{})", i, j, a.xend, a.yend));
        }
        if a.xstart > 0 {
            score += raw(0);
            has_clip = true;
        }
        if a.xend < m {
            score += raw(1);
            has_clip = true;
        }
        if a.ystart > 0 {
            score += raw(2);
            has_clip = true;
        }
        if a.yend < n {
            score += raw(3);
            has_clip = true;
        }
    }
    Ok(Validated { recomputed: score, has_gap, has_clip, n_ops: a.operations.len() })
}
