//! Helpers for the large-scale (`CNN/large-*`) sub-checks: deterministic expansion of small
//! serialisable case parameters into big inputs, and the ladder of size thresholds.

// ===========================================================================
// ==== block of C19 / C20 (scale-c1920): names carry the prefix `c1920` ====
// ===========================================================================

/// splitmix64: the only source of pseudo-randomness inside a `check` (a pure function of the seed
/// stored in the case; neither the library under test nor std randomness is involved)
#[derive(Clone, Debug)]
pub struct C1920Rng(pub u64);

impl C1920Rng {
    pub fn new(seed: u64) -> C1920Rng {
        C1920Rng(seed ^ 0x5851_f42d_4c95_7f2d)
    }
    #[inline]
    pub fn next(&mut self) -> u64 {
        self.0 = self.0.wrapping_add(0x9e37_79b9_7f4a_7c15);
        let mut z = self.0;
        z = (z ^ (z >> 30)).wrapping_mul(0xbf58_476d_1ce4_e5b9);
        z = (z ^ (z >> 27)).wrapping_mul(0x94d0_49bb_1331_11eb);
        z ^ (z >> 31)
    }
    /// uniform in 0..n (n >= 1), multiply-shift (bias < 2^-32 for the sizes used here)
    #[inline]
    pub fn below(&mut self, n: usize) -> usize {
        (((self.next() >> 32) * n as u64) >> 32) as usize
    }
    /// `len` symbols drawn uniformly from `palette`
    pub fn fill(&mut self, palette: &[u8], len: usize) -> Vec<u8> {
        let mut v = Vec::with_capacity(len);
        if palette.len() == 1 {
            v.resize(len, palette[0]);
            return v;
        }
        while v.len() < len {
            let mut w = self.next();
            // four 16-bit draws per word
            for _ in 0..4 {
                if v.len() == len {
                    break;
                }
                v.push(palette[(((w & 0xffff) as usize) * palette.len()) >> 16]);
                w >>= 16;
            }
        }
        v
    }
}

/// centres of the ladder bands; a value v belongs to band i when |v - centre| <= 1
/// (the band "~70000" takes 69_000..=71_000)
pub const C1920_CENTRES: [usize; 12] = [256, 512, 1024, 4096, 8192, 16384, 32768, 65536, 70_000, 131_072, 524_288, 1_048_576];

/// every exact ladder value, ascending
pub fn c1920_ladder() -> Vec<usize> {
    let mut v = Vec::new();
    for &c in C1920_CENTRES.iter() {
        if c == 70_000 {
            v.push(c);
        } else {
            v.extend([c - 1, c, c + 1]);
        }
    }
    v
}

pub fn c1920_band(v: usize) -> Option<usize> {
    C1920_CENTRES.iter().position(|&c| if c == 70_000 { (69_000..=71_000).contains(&v) } else { v + 1 >= c && v <= c + 1 })
}

/// the twelve band labels of one size parameter, e.g. `c1920_bands!("n")[7]` = "n in 65535..=65537"
#[macro_export]
macro_rules! c1920_bands {
    ($p:literal) => {
        [
            concat!($p, " in 255..=257"),
            concat!($p, " in 511..=513"),
            concat!($p, " in 1023..=1025"),
            concat!($p, " in 4095..=4097"),
            concat!($p, " in 8191..=8193"),
            concat!($p, " in 16383..=16385"),
            concat!($p, " in 32767..=32769"),
            concat!($p, " in 65535..=65537"),
            concat!($p, " ~ 70000"),
            concat!($p, " in 131071..=131073"),
            concat!($p, " in 2^19-1..=2^19+1"),
            concat!($p, " in 2^20-1..=2^20+1"),
        ]
    };
}

/// labels for a derived quantity that cannot be steered to an exact value: which thresholds it exceeds
#[macro_export]
macro_rules! c1920_over {
    ($p:literal) => {
        [concat!($p, " > 255"), concat!($p, " > 4096"), concat!($p, " > 65536"), concat!($p, " > 2^20")]
    };
}

pub const C1920_OVER: [usize; 4] = [255, 4096, 65536, 1 << 20];

/// positions worth sampling in a sequence of length n: first, last, and the neighbours of every
/// ladder value and of every multiple of 65536 that lie inside
pub fn c1920_sample_positions(n: usize, extra: usize, rng: &mut C1920Rng) -> Vec<usize> {
    let mut v = Vec::new();
    if n == 0 {
        return v;
    }
    v.push(0);
    v.push(n - 1);
    for l in c1920_ladder() {
        for d in 0..3 {
            let p = l + d;
            if p >= 1 && p - 1 < n {
                v.push(p - 1);
            }
        }
    }
    let mut mult = 65536;
    while mult < n {
        v.push(mult - 1);
        v.push(mult);
        mult += 65536;
    }
    for _ in 0..extra {
        v.push(rng.below(n));
    }
    v.sort_unstable();
    v.dedup();
    v
}

// ---------------------------------------------------------------------------
// A sub-check that runs a deterministic list of (few, heavy) parameter cases, spread over worker
// shards. Unlike `ExhSub` it is sharded (case i runs in shard i % nshards) and the list may depend
// on the run seed (the sizes of the ladder are fixed, the contents vary with the seed), so every
// ladder value is reached in every run by construction. Uses only the public engine API.

use crate::engine::{guarded, Failure, Pass, RunParams, Stop, SubCheck, SubStats, Tier, R, WATCH};
use serde::de::DeserializeOwned;
use serde::Serialize;
use serde_json::{json, Value};
use std::collections::BTreeSet;
use std::fmt::Debug;
use std::time::Instant;

pub struct C1920LadderSub<C: 'static> {
    pub name: &'static str,
    /// the case list for (tier, run seed); must be cheap (parameters only)
    pub cases: fn(Tier, u64) -> Vec<C>,
    pub check: fn(&C) -> R,
    /// rough relative cost of a case (any unit): used to balance the shards (longest first, to the least loaded)
    pub cost: fn(&C) -> u64,
    pub shards_quick: u32,
    pub shards_thorough: u32,
    pub must_reach: &'static [&'static str],
}

fn c1920_fnv64(data: &[u8]) -> u64 {
    let mut h: u64 = 0xcbf29ce484222325;
    for b in data {
        h ^= *b as u64;
        h = h.wrapping_mul(0x100000001b3);
    }
    h
}

impl<C> SubCheck for C1920LadderSub<C>
where
    C: Serialize + DeserializeOwned + Debug + 'static,
{
    fn name(&self) -> &'static str {
        self.name
    }
    fn planned(&self, tier: Tier) -> u64 {
        (self.cases)(tier, 0).len() as u64
    }
    fn shards(&self, tier: Tier) -> u32 {
        match tier {
            Tier::Quick => self.shards_quick.max(1),
            Tier::Thorough => self.shards_thorough.max(1),
        }
    }
    fn must_reach(&self) -> &'static [&'static str] {
        self.must_reach
    }
    fn exec(&self, p: &RunParams) -> SubStats {
        let t0 = Instant::now();
        let cases = (self.cases)(p.tier, p.seed);
        let mut st = SubStats { property: p.property.clone(), subcheck: self.name.to_string(), shard: p.shard, ..Default::default() };
        let mut hashes: BTreeSet<u64> = BTreeSet::new();
        let mut seen: BTreeSet<&'static str> = BTreeSet::new();
        // VERIF_LADDER_TIMING=1: per-case wall time on stderr (tuning aid; no influence on the verdict)
        let timing = std::env::var("VERIF_LADDER_TIMING").is_ok();
        // deterministic balancing: every worker computes the same assignment
        let nsh = p.nshards.max(1) as usize;
        let mut order: Vec<usize> = (0..cases.len()).collect();
        order.sort_by_key(|&i| (std::cmp::Reverse((self.cost)(&cases[i])), i));
        let mut load = vec![0u64; nsh];
        let mut mine = vec![false; cases.len()];
        for i in order {
            let sh = (0..nsh).min_by_key(|&s| (load[s], s)).unwrap();
            load[sh] += (self.cost)(&cases[i]).max(1);
            mine[i] = sh as u32 == p.shard;
        }
        for (i, case) in cases.iter().enumerate() {
            if !mine[i] {
                continue;
            }
            let js = serde_json::to_string(case).expect("case serialises");
            *WATCH.current.lock().unwrap() = Some((Instant::now(), js.clone()));
            let tc = Instant::now();
            let r = guarded(self.check, case);
            *WATCH.current.lock().unwrap() = None;
            if timing {
                eprintln!("TIMING {} case {} {:.1} ms {}", self.name, i, tc.elapsed().as_secs_f64() * 1e3, &js[..js.len().min(300)]);
            }
            match r {
                Ok(pass) => {
                    let pass: Pass = pass;
                    st.cases += 1;
                    let mut want_sample = false;
                    for c in &pass.classes {
                        *st.classes.entry((*c).to_string()).or_insert(0) += 1;
                        if seen.insert(*c) && st.samples.len() < 4 {
                            want_sample = true;
                        }
                    }
                    if pass.nontrivial && hashes.insert(c1920_fnv64(js.as_bytes())) {
                        st.nontrivial += 1;
                    }
                    if want_sample {
                        let v: Value = serde_json::from_str(&js).unwrap_or(Value::Null);
                        st.samples.push(json!({"subcheck": self.name, "nontrivial": pass.nontrivial, "classes": pass.classes, "case": v}));
                    }
                }
                Err(Stop::Skip(sig)) => {
                    *st.excluded_known.entry(sig.to_string()).or_insert(0) += 1;
                }
                Err(Stop::Fail(msg)) => {
                    st.failure = Some(Failure { message: msg, case: serde_json::to_value(case).unwrap(), replay_path: None });
                    break;
                }
            }
        }
        st.nontrivial_hashes = hashes.into_iter().collect();
        st.wall_s = t0.elapsed().as_secs_f64();
        st
    }
    fn replay(&self, case: &Value) -> Result<R, String> {
        let c: C = serde_json::from_value(case.clone()).map_err(|e| format!("cannot decode case: {}", e))?;
        Ok(guarded(self.check, &c))
    }
}
