//! Helpers for the large-scale (`CNN/large-*`) sub-checks: deterministic expansion of small
//! serialisable case parameters into big inputs, and the ladder of size thresholds.

// ===========================================================================
// ==== block of C19 / C20 (scale-c1920): names carry the prefix `c1920` ====
// ===========================================================================

/// splitmix64: the only source of pseudo-randomness inside a `check` (a pure function of the seed
/// stored in the case; neither the library under test nor std randomness is involved)
#[derive(Clone, Debug)]
pub struct C1920Rng(pub u64);

impl C1920Rng {
    pub fn new(seed: u64) -> C1920Rng {
        C1920Rng(seed ^ 0x5851_f42d_4c95_7f2d)
    }
    #[inline]
    pub fn next(&mut self) -> u64 {
        self.0 = self.0.wrapping_add(0x9e37_79b9_7f4a_7c15);
        let mut z = self.0;
        z = (z ^ (z >> 30)).wrapping_mul(0xbf58_476d_1ce4_e5b9);
        z = (z ^ (z >> 27)).wrapping_mul(0x94d0_49bb_1331_11eb);
        z ^ (z >> 31)
    }
    /// uniform in 0..n (n >= 1), multiply-shift (bias < 2^-32 for the sizes used here)
    #[inline]
    pub fn below(&mut self, n: usize) -> usize {
        (((self.next() >> 32) * n as u64) >> 32) as usize
    }
    /// `len` symbols drawn uniformly from `palette`
    pub fn fill(&mut self, palette: &[u8], len: usize) -> Vec<u8> {
        let mut v = Vec::with_capacity(len);
        if palette.len() == 1 {
            v.resize(len, palette[0]);
            return v;
        }
        while v.len() < len {
            let mut w = self.next();
            // four 16-bit draws per word
            for _ in 0..4 {
                if v.len() == len {
                    break;
                }
                v.push(palette[(((w & 0xffff) as usize) * palette.len()) >> 16]);
                w >>= 16;
            }
        }
        v
    }
}

/// centres of the ladder bands; a value v belongs to band i when |v - centre| <= 1
/// (the band "~70000" takes 69_000..=71_000)
pub const C1920_CENTRES: [usize; 12] = [256, 512, 1024, 4096, 8192, 16384, 32768, 65536, 70_000, 131_072, 524_288, 1_048_576];

/// every exact ladder value, ascending
pub fn c1920_ladder() -> Vec<usize> {
    let mut v = Vec::new();
    for &c in C1920_CENTRES.iter() {
        if c == 70_000 {
            v.push(c);
        } else {
            v.extend([c - 1, c, c + 1]);
        }
    }
    v
}

pub fn c1920_band(v: usize) -> Option<usize> {
    C1920_CENTRES.iter().position(|&c| if c == 70_000 { (69_000..=71_000).contains(&v) } else { v + 1 >= c && v <= c + 1 })
}

/// the twelve band labels of one size parameter, e.g. `c1920_bands!("n")[7]` = "n in 65535..=65537"
#[macro_export]
macro_rules! c1920_bands {
    ($p:literal) => {
        [
            concat!($p, " in 255..=257"),
            concat!($p, " in 511..=513"),
            concat!($p, " in 1023..=1025"),
            concat!($p, " in 4095..=4097"),
            concat!($p, " in 8191..=8193"),
            concat!($p, " in 16383..=16385"),
            concat!($p, " in 32767..=32769"),
            concat!($p, " in 65535..=65537"),
            concat!($p, " ~ 70000"),
            concat!($p, " in 131071..=131073"),
            concat!($p, " in 2^19-1..=2^19+1"),
            concat!($p, " in 2^20-1..=2^20+1"),
        ]
    };
}

/// labels for a derived quantity that cannot be steered to an exact value: which thresholds it exceeds
#[macro_export]
macro_rules! c1920_over {
    ($p:literal) => {
        [concat!($p, " > 255"), concat!($p, " > 4096"), concat!($p, " > 65536"), concat!($p, " > 2^20")]
    };
}

pub const C1920_OVER: [usize; 4] = [255, 4096, 65536, 1 << 20];

/// positions worth sampling in a sequence of length n: first, last, and the neighbours of every
/// ladder value and of every multiple of 65536 that lie inside
pub fn c1920_sample_positions(n: usize, extra: usize, rng: &mut C1920Rng) -> Vec<usize> {
    let mut v = Vec::new();
    if n == 0 {
        return v;
    }
    v.push(0);
    v.push(n - 1);
    for l in c1920_ladder() {
        for d in 0..3 {
            let p = l + d;
            if p >= 1 && p - 1 < n {
                v.push(p - 1);
            }
        }
    }
    let mut mult = 65536;
    while mult < n {
        v.push(mult - 1);
        v.push(mult);
        mult += 65536;
    }
    for _ in 0..extra {
        v.push(rng.below(n));
    }
    v.sort_unstable();
    v.dedup();
    v
}

// ---------------------------------------------------------------------------
// A sub-check that runs a deterministic list of (few, heavy) parameter cases, spread over worker
// shards. Unlike `ExhSub` it is sharded (case i runs in shard i % nshards) and the list may depend
// on the run seed (the sizes of the ladder are fixed, the contents vary with the seed), so every
// ladder value is reached in every run by construction. Uses only the public engine API.

use crate::engine::{guarded, Failure, Pass, RunParams, Stop, SubCheck, SubStats, Tier, R, WATCH};
use serde::de::DeserializeOwned;
use serde::Serialize;
use serde_json::{json, Value};
use std::collections::BTreeSet;
use std::fmt::Debug;
use std::time::Instant;

pub struct C1920LadderSub<C: 'static> {
    pub name: &'static str,
    /// the case list for (tier, run seed); must be cheap (parameters only)
    pub cases: fn(Tier, u64) -> Vec<C>,
    pub check: fn(&C) -> R,
    /// rough relative cost of a case (any unit): used to balance the shards (longest first, to the least loaded)
    pub cost: fn(&C) -> u64,
    pub shards_quick: u32,
    pub shards_thorough: u32,
    pub must_reach: &'static [&'static str],
}

fn c1920_fnv64(data: &[u8]) -> u64 {
    let mut h: u64 = 0xcbf29ce484222325;
    for b in data {
        h ^= *b as u64;
        h = h.wrapping_mul(0x100000001b3);
    }
    h
}

impl<C> SubCheck for C1920LadderSub<C>
where
    C: Serialize + DeserializeOwned + Debug + 'static,
{
    fn name(&self) -> &'static str {
        self.name
    }
    fn planned(&self, tier: Tier) -> u64 {
        (self.cases)(tier, 0).len() as u64
    }
    fn shards(&self, tier: Tier) -> u32 {
        match tier {
            Tier::Quick => self.shards_quick.max(1),
            Tier::Thorough => self.shards_thorough.max(1),
        }
    }
    fn must_reach(&self) -> &'static [&'static str] {
        self.must_reach
    }
    fn exec(&self, p: &RunParams) -> SubStats {
        let t0 = Instant::now();
        let cases = (self.cases)(p.tier, p.seed);
        let mut st = SubStats { property: p.property.clone(), subcheck: self.name.to_string(), shard: p.shard, ..Default::default() };
        let mut hashes: BTreeSet<u64> = BTreeSet::new();
        let mut seen: BTreeSet<&'static str> = BTreeSet::new();
        // VERIF_LADDER_TIMING=1: per-case wall time on stderr (tuning aid; no influence on the verdict)
        let timing = std::env::var("VERIF_LADDER_TIMING").is_ok();
        // deterministic balancing: every worker computes the same assignment
        let nsh = p.nshards.max(1) as usize;
        let mut order: Vec<usize> = (0..cases.len()).collect();
        order.sort_by_key(|&i| (std::cmp::Reverse((self.cost)(&cases[i])), i));
        let mut load = vec![0u64; nsh];
        let mut mine = vec![false; cases.len()];
        for i in order {
            let sh = (0..nsh).min_by_key(|&s| (load[s], s)).unwrap();
            load[sh] += (self.cost)(&cases[i]).max(1);
            mine[i] = sh as u32 == p.shard;
        }
        for (i, case) in cases.iter().enumerate() {
            if !mine[i] {
                continue;
            }
            let js = serde_json::to_string(case).expect("case serialises");
            *WATCH.current.lock().unwrap() = Some((Instant::now(), js.clone()));
            let tc = Instant::now();
            let r = guarded(self.check, case);
            *WATCH.current.lock().unwrap() = None;
            if timing {
                eprintln!("TIMING {} case {} {:.1} ms {}", self.name, i, tc.elapsed().as_secs_f64() * 1e3, &js[..js.len().min(300)]);
            }
            match r {
                Ok(pass) => {
                    let pass: Pass = pass;
                    st.cases += 1;
                    let mut want_sample = false;
                    for c in &pass.classes {
                        *st.classes.entry((*c).to_string()).or_insert(0) += 1;
                        if seen.insert(*c) && st.samples.len() < 4 {
                            want_sample = true;
                        }
                    }
                    if pass.nontrivial && hashes.insert(c1920_fnv64(js.as_bytes())) {
                        st.nontrivial += 1;
                    }
                    if want_sample {
                        let v: Value = serde_json::from_str(&js).unwrap_or(Value::Null);
                        st.samples.push(json!({"subcheck": self.name, "nontrivial": pass.nontrivial, "classes": pass.classes, "case": v}));
                    }
                }
                Err(Stop::Skip(sig)) => {
                    *st.excluded_known.entry(sig.to_string()).or_insert(0) += 1;
                }
                Err(Stop::Fail(msg)) => {
                    st.failure = Some(Failure { message: msg, case: serde_json::to_value(case).unwrap(), replay_path: None });
                    break;
                }
            }
        }
        st.nontrivial_hashes = hashes.into_iter().collect();
        st.wall_s = t0.elapsed().as_secs_f64();
        st
    }
    fn replay(&self, case: &Value) -> Result<R, String> {
        let c: C = serde_json::from_value(case.clone()).map_err(|e| format!("cannot decode case: {}", e))?;
        Ok(guarded(self.check, &c))
    }
}

// ======================================================================================
// merged block from the c0306 work
// ======================================================================================
// Helpers for the LARGE-SCALE sub-checks (size ladders 255 .. 2^20).
//
// ======================================================================================
// Block C03-C06 (suffix array / LCP / sampled SA, BWT / less / Occ, FM-index, FMD-index).
// Everything of this block lives in `pub mod c0306`; nothing outside it.
// ======================================================================================

pub mod c0306 {
    use crate::engine::{guarded, Failure, Pass, RunParams, Stop, SubCheck, SubStats, Tier, R, WATCH};
    use serde::de::DeserializeOwned;
    use serde::{Deserialize, Serialize};
    use serde_json::{json, Value};
    use std::collections::HashSet;
    use std::fmt::Debug;
    use std::time::Instant;

    // -----------------------------------------------------------------------------------
    // deterministic PRNG (splitmix64); the checks expand `{kind, n, seed}` with it

    #[derive(Clone, Debug)]
    pub struct Sm64(pub u64);

    impl Sm64 {
        pub fn new(seed: u64) -> Sm64 {
            Sm64(seed)
        }
        pub fn next(&mut self) -> u64 {
            self.0 = self.0.wrapping_add(0x9e3779b97f4a7c15);
            let mut z = self.0;
            z = (z ^ (z >> 30)).wrapping_mul(0xbf58476d1ce4e5b9);
            z = (z ^ (z >> 27)).wrapping_mul(0x94d049bb133111eb);
            z ^ (z >> 31)
        }
        /// uniform in 0..n (n >= 1)
        pub fn below(&mut self, n: usize) -> usize {
            ((self.next() as u128 * n as u128) >> 64) as usize
        }
    }

    pub fn mix(a: u64, b: u64) -> u64 {
        let mut s = Sm64(a ^ b.wrapping_mul(0x9e3779b97f4a7c15));
        s.next()
    }

    // -----------------------------------------------------------------------------------
    // the size ladder

    /// (lo, hi) of every ladder group; a value v "reaches" a group when lo <= v <= hi
    pub const GROUPS: [(usize, usize); 12] = [
        (255, 257),
        (511, 513),
        (1023, 1025),
        (4095, 4097),
        (8191, 8193),
        (16383, 16385),
        (32767, 32769),
        (65535, 65537),
        (69000, 71000),
        (131071, 131073),
        (524287, 524289),
        (1048575, 1048577),
    ];

    pub fn group_of(v: usize) -> Option<usize> {
        GROUPS.iter().position(|&(lo, hi)| lo <= v && v <= hi)
    }

    /// every ladder value <= max: the three values around each power of two and 70 000
    pub fn ladder(max: usize) -> Vec<usize> {
        let mut v = Vec::new();
        for (g, &(lo, hi)) in GROUPS.iter().enumerate() {
            if g == 8 {
                v.push(70_000);
            } else {
                v.extend(lo..=hi);
            }
        }
        v.retain(|&x| x <= max);
        v
    }

    /// class labels "<param> in 255..257" .. one per ladder group
    #[macro_export]
    macro_rules! c0306_ladder_labels {
        ($p:literal) => {
            [
                concat!($p, " in 255..257"),
                concat!($p, " in 511..513"),
                concat!($p, " in 1023..1025"),
                concat!($p, " in 4095..4097"),
                concat!($p, " in 8191..8193"),
                concat!($p, " in 16383..16385"),
                concat!($p, " in 32767..32769"),
                concat!($p, " in 65535..65537"),
                concat!($p, " ~ 70000"),
                concat!($p, " in 131071..131073"),
                concat!($p, " in 2^19-1..2^19+1"),
                concat!($p, " in 2^20-1..2^20+1"),
            ]
        };
    }

    pub fn add_group(pass: &mut Pass, labels: &[&'static str; 12], v: usize) {
        if let Some(g) = group_of(v) {
            pass.add(labels[g]);
        }
    }

    // -----------------------------------------------------------------------------------
    // texts as generator parameters

    #[derive(Serialize, Deserialize, Debug, Clone, Copy, PartialEq, Eq)]
    pub enum Kind {
        /// uniform over sigma symbols
        Random,
        /// one symbol
        Homo,
        /// a random unit of this length (first two symbols different when sigma >= 2), repeated
        Period(u32),
        /// sigma equal-length runs, symbols ascending / descending
        Asc,
        Desc,
        /// Fibonacci / Thue-Morse word over the first two symbols
        Fib,
        Thue,
        /// X c X with X random: longest repeat = |X|
        Repeat2,
    }

    /// where the INTERIOR sentinel occurrences are (the text always ends in one more)
    #[derive(Serialize, Deserialize, Debug, Clone, Copy, PartialEq, Eq)]
    pub enum Sent {
        Single,
        /// this many, evenly spread
        Even(usize),
        /// this many, at random places
        Random(usize),
        /// this many, directly before the final one
        Tail(usize),
        /// this many, at the start of the text
        Head(usize),
        /// one after every `step - 1` body symbols (with Kind::Period(step-1): identical reads)
        Every(usize),
    }

    #[derive(Serialize, Deserialize, Debug, Clone, PartialEq, Eq)]
    pub struct TextSpec {
        pub kind: Kind,
        /// total text length including all sentinel occurrences
        pub n: usize,
        /// number of distinct body symbols available to the kind
        pub sigma: u16,
        pub sent: Sent,
        /// sentinel byte; body symbols are sentinel+1.. (or ACGT when `dna`)
        pub sentinel: u8,
        pub dna: bool,
        pub seed: u64,
    }

    fn fib_bits(len: usize) -> Vec<bool> {
        let (mut prev, mut cur) = (vec![false], vec![false, true]);
        while cur.len() < len {
            let mut next = cur.clone();
            next.extend_from_slice(&prev);
            prev = cur;
            cur = next;
        }
        cur.truncate(len);
        cur
    }

    /// body of `len` symbols as ranks 0..sigma
    pub fn body_ranks(kind: Kind, len: usize, sigma: u16, seed: u64) -> Vec<u16> {
        let sigma = sigma.max(1) as usize;
        let mut rng = Sm64::new(seed);
        match kind {
            Kind::Random => (0..len).map(|_| rng.below(sigma) as u16).collect(),
            Kind::Homo => vec![0; len],
            Kind::Period(p) => {
                let p = (p as usize).max(1);
                let mut unit: Vec<u16> = (0..p).map(|_| rng.below(sigma) as u16).collect();
                if p >= 2 && sigma >= 2 && unit[0] == unit[1] {
                    unit[1] = (unit[0] + 1) % sigma as u16;
                }
                (0..len).map(|i| unit[i % p]).collect()
            }
            Kind::Asc => (0..len).map(|i| ((i as u128 * sigma as u128) / len.max(1) as u128) as u16).collect(),
            Kind::Desc => (0..len).map(|i| (sigma - 1 - ((i as u128 * sigma as u128) / len.max(1) as u128) as usize) as u16).collect(),
            Kind::Fib => {
                let hi = if sigma >= 2 { 1 } else { 0 };
                fib_bits(len).into_iter().map(|b| if b { hi } else { 0 }).collect()
            }
            Kind::Thue => {
                let hi = if sigma >= 2 { 1 } else { 0 };
                (0..len).map(|i| if i.count_ones() & 1 == 1 { hi } else { 0 }).collect()
            }
            Kind::Repeat2 => {
                if len < 3 {
                    return (0..len).map(|_| rng.below(sigma) as u16).collect();
                }
                let h = (len - 1) / 2;
                let x: Vec<u16> = (0..h).map(|_| rng.below(sigma) as u16).collect();
                let mut v = Vec::with_capacity(len);
                // pad in front when len is even
                for _ in 0..(len - 1 - 2 * h) {
                    v.push(rng.below(sigma) as u16);
                }
                v.extend_from_slice(&x);
                v.push(rng.below(sigma) as u16);
                v.extend_from_slice(&x);
                v
            }
        }
    }

    impl TextSpec {
        pub fn interior(&self) -> usize {
            match self.sent {
                Sent::Single => 0,
                Sent::Even(q) | Sent::Random(q) | Sent::Tail(q) | Sent::Head(q) => q,
                Sent::Every(step) => {
                    if step == 0 {
                        0
                    } else {
                        (self.n - 1) / step
                    }
                }
            }
        }

        /// None when the parameters are not a text of the domain (harness error)
        pub fn build(&self) -> Option<Vec<u8>> {
            let n = self.n;
            if n == 0 || self.sigma == 0 {
                return None;
            }
            let q = self.interior();
            if q > n - 1 {
                return None;
            }
            if let Sent::Every(step) = self.sent {
                if step == 0 {
                    return None;
                }
            }
            let use_dna = self.dna && self.sigma <= 4 && self.sentinel == b'$';
            if !use_dna && self.sentinel as usize + self.sigma as usize > 255 {
                return None;
            }
            let map = |r: u16| -> u8 {
                if use_dna {
                    b"ACGT"[r as usize]
                } else {
                    self.sentinel + 1 + r as u8
                }
            };
            // mask of interior sentinel positions among 0..n-1
            let m = n - 1;
            let mut mask = vec![false; m];
            match self.sent {
                Sent::Single => {}
                Sent::Even(q) => {
                    for i in 0..m {
                        let a = ((i as u128 + 1) * q as u128 / m as u128) as usize;
                        let b = (i as u128 * q as u128 / m as u128) as usize;
                        mask[i] = a > b;
                    }
                }
                Sent::Random(q) => {
                    let mut rng = Sm64::new(mix(self.seed, 0x5e17));
                    let mut chosen = 0usize;
                    for i in 0..m {
                        if chosen < q && rng.below(m - i) < q - chosen {
                            mask[i] = true;
                            chosen += 1;
                        }
                    }
                }
                Sent::Tail(q) => {
                    for i in m - q..m {
                        mask[i] = true;
                    }
                }
                Sent::Head(q) => {
                    for i in 0..q {
                        mask[i] = true;
                    }
                }
                Sent::Every(step) => {
                    for i in 0..m {
                        mask[i] = (i + 1) % step == 0;
                    }
                }
            }
            let q = mask.iter().filter(|&&x| x).count();
            let body = body_ranks(self.kind, m - q, self.sigma, self.seed);
            let mut t = Vec::with_capacity(n);
            let mut j = 0usize;
            for i in 0..m {
                if mask[i] {
                    t.push(self.sentinel);
                } else {
                    t.push(map(body[j]));
                    j += 1;
                }
            }
            t.push(self.sentinel);
            Some(t)
        }
    }

    // -----------------------------------------------------------------------------------
    // polynomial prefix hashes (mod 2^61-1): O(1) substring equality, used to get the common
    // prefix length of two suffixes in O(log n). An unequal hash proves the strings differ; an
    // equal hash is believed. Every verdict "violation" reached through hashes is re-confirmed
    // by a direct symbol-by-symbol comparison before it is reported, so a collision can only
    // cause a miss, never an alarm.

    const M61: u64 = (1u64 << 61) - 1;
    const BASE: u64 = 0x1d2f_a9c3_7b51_e04d % M61;

    #[inline]
    fn mulmod(a: u64, b: u64) -> u64 {
        let t = a as u128 * b as u128;
        let lo = (t as u64) & M61;
        let hi = (t >> 61) as u64;
        let mut s = lo + hi;
        if s >= M61 {
            s -= M61;
        }
        s
    }

    pub struct PHash {
        pre: Vec<u64>,
        pw: Vec<u64>,
    }

    impl PHash {
        pub fn new<I: Iterator<Item = u64>>(len: usize, syms: I) -> PHash {
            let mut pre = Vec::with_capacity(len + 1);
            let mut pw = Vec::with_capacity(len + 1);
            pre.push(0u64);
            pw.push(1u64);
            for s in syms {
                let last = *pre.last().unwrap();
                let mut h = mulmod(last, BASE) + (s % (M61 - 1)) + 1;
                if h >= M61 {
                    h -= M61;
                }
                pre.push(h);
                let lp = *pw.last().unwrap();
                pw.push(mulmod(lp, BASE));
            }
            PHash { pre, pw }
        }
        pub fn len(&self) -> usize {
            self.pre.len() - 1
        }
        /// hash of the `len` symbols starting at `a`
        #[inline]
        pub fn get(&self, a: usize, len: usize) -> u64 {
            let x = self.pre[a + len];
            let y = mulmod(self.pre[a], self.pw[len]);
            if x >= y {
                x - y
            } else {
                x + M61 - y
            }
        }
        /// common prefix length of the suffixes at a and b, at most `cap` (galloping + bisection)
        pub fn lcp(&self, a: usize, b: usize, cap: usize) -> usize {
            if a == b {
                return cap;
            }
            // invariant: first `lo` symbols equal; `hi` = smallest known length with a difference (or cap+1)
            let mut lo = 0usize;
            let mut step = 1usize;
            let mut hi = cap + 1;
            while lo + step <= cap {
                if self.get(a, lo + step) == self.get(b, lo + step) {
                    lo += step;
                    step *= 2;
                } else {
                    hi = lo + step;
                    break;
                }
            }
            if hi == cap + 1 {
                // gallop ran off the end: the difference (if any) is in (lo, cap]
                if self.get(a, cap) == self.get(b, cap) {
                    return cap;
                }
                hi = cap;
            }
            // equal up to lo, different at length hi
            while hi - lo > 1 {
                let mid = lo + (hi - lo) / 2;
                if self.get(a, mid) == self.get(b, mid) {
                    lo = mid;
                } else {
                    hi = mid;
                }
            }
            lo
        }
    }

    /// Integer view of a byte text in which every sentinel occurrence is its own symbol below all
    /// others, ranked as in sa[0..#sentinels] (the order the implementation chose). Checks that
    /// `sa` is a permutation, sa[0] = n-1 and that the sentinel block comes first.
    pub fn int_view(text: &[u8], sa: &[usize]) -> Result<(Vec<u32>, usize), String> {
        let n = text.len();
        let sentinel = text[n - 1];
        if sa.len() != n {
            return Err(format!("suffix array has length {}, expected {}", sa.len(), n));
        }
        let mut seen = vec![false; n];
        for (r, &p) in sa.iter().enumerate() {
            if p >= n {
                return Err(format!("sa[{}]={} is not a text position (n={})", r, p, n));
            }
            if seen[p] {
                return Err(format!("position {} occurs twice (again at sa[{}]): not a permutation", p, r));
            }
            seen[p] = true;
        }
        if sa[0] != n - 1 {
            return Err(format!("the final sentinel (position {}) must be the smallest suffix but sa[0]={}", n - 1, sa[0]));
        }
        let m = text.iter().filter(|&&c| c == sentinel).count();
        let mut t: Vec<u32> = text.iter().map(|&c| m as u32 + c as u32).collect();
        for r in 0..m {
            let p = sa[r];
            if text[p] != sentinel {
                return Err(format!("{} sentinel occurrences must occupy sa[0..{}] but sa[{}]={} starts with symbol {:#04x}", m, m, r, p, text[p]));
            }
            t[p] = r as u32;
        }
        Ok((t, m))
    }

    fn direct_lcp(t: &[u32], a: usize, b: usize) -> usize {
        let mut l = 0;
        while a + l < t.len() && b + l < t.len() && t[a + l] == t[b + l] {
            l += 1;
        }
        l
    }

    /// `sa` (already known to be a permutation of 0..n) is strictly increasing over the integer
    /// text `t` whose last symbol is the unique minimum. Returns adj[r] = common prefix length of
    /// suffixes sa[r-1], sa[r] (adj[0] = 0). Near-linear: O(log lcp) hash probes per pair.
    pub fn verify_sorted(t: &[u32], sa: &[usize]) -> Result<Vec<u32>, String> {
        let n = t.len();
        let h = PHash::new(n, t.iter().map(|&x| x as u64));
        let mut adj = vec![0u32; n];
        for r in 1..n {
            let (a, b) = (sa[r - 1], sa[r]);
            let cap = n - a.max(b);
            let l = h.lcp(a, b, cap);
            let ok = l < cap && t[a + l] < t[b + l];
            if !ok {
                // confirm directly (exact) before believing the hashes
                let dl = direct_lcp(t, a, b);
                let less = a + dl < n && b + dl < n && t[a + dl] < t[b + dl];
                if !less {
                    return Err(format!(
                        "suffix at sa[{}]={} is not smaller than suffix at sa[{}]={} (they share {} leading symbols; sentinel occurrences ordered as in the head of the array)",
                        r - 1, a, r, b, dl
                    ));
                }
                adj[r] = dl as u32;
            } else {
                adj[r] = l as u32;
            }
        }
        Ok(adj)
    }

    // -----------------------------------------------------------------------------------
    // Z-function and linear-time occurrence oracles (cross-checked against the naive scan on a
    // truncated copy of the input inside every check that uses them)

    pub fn z_function<T: PartialEq>(s: &[T]) -> Vec<u32> {
        let n = s.len();
        let mut z = vec![0u32; n];
        let (mut l, mut r) = (0usize, 0usize);
        for i in 1..n {
            let mut k = if i < r { (z[i - l] as usize).min(r - i) } else { 0 };
            while i + k < n && s[k] == s[i + k] {
                k += 1;
            }
            z[i] = k as u32;
            if i + k > r {
                l = i;
                r = i + k;
            }
        }
        z
    }

    /// sorted start positions of p in text (p non-empty)
    pub fn occurrences_linear(p: &[u8], text: &[u8]) -> Vec<usize> {
        let m = p.len();
        if m == 0 || m > text.len() {
            return Vec::new();
        }
        let mut s: Vec<u16> = Vec::with_capacity(m + 1 + text.len());
        s.extend(p.iter().map(|&c| c as u16));
        s.push(256);
        s.extend(text.iter().map(|&c| c as u16));
        let z = z_function(&s);
        (0..=text.len() - m).filter(|&i| z[m + 1 + i] as usize >= m).collect()
    }

    /// (l, positions): l = length of the longest suffix of p that occurs in text (0 if none),
    /// positions = sorted start positions of that suffix
    pub fn longest_suffix_occurrences(p: &[u8], text: &[u8]) -> (usize, Vec<usize>) {
        let (m, n) = (p.len(), text.len());
        let mut s: Vec<u16> = Vec::with_capacity(m + 1 + n);
        s.extend(p.iter().rev().map(|&c| c as u16));
        s.push(256);
        s.extend(text.iter().rev().map(|&c| c as u16));
        let z = z_function(&s);
        let best = (0..n).map(|j| z[m + 1 + j]).max().unwrap_or(0) as usize;
        if best == 0 {
            return (0, Vec::new());
        }
        // reversed-text index j: the suffix of p of length `best` ends at forward position n-1-j
        let mut pos: Vec<usize> = (0..n).filter(|&j| z[m + 1 + j] as usize == best).map(|j| n - j - best).collect();
        pos.sort_unstable();
        (best, pos)
    }

    // -----------------------------------------------------------------------------------
    // suffix automaton with occurrence counts: matching statistics of a pattern in O(m),
    // hence all supermaximal exact matches (cross-checked against the brute-force SMEM oracle on
    // a truncated copy of the input inside the check)

    pub struct Sam {
        sigma: usize,
        code: [u8; 256],
        next: Vec<u32>, // state * sigma + c ; u32::MAX = none
        link: Vec<u32>,
        len: Vec<u32>,
        pub cnt: Vec<u32>,
    }

    const NONE: u32 = u32::MAX;

    impl Sam {
        pub fn new(text: &[u8]) -> Sam {
            let mut code = [255u8; 256];
            let mut sigma = 0usize;
            for c in 0..256usize {
                if text.contains(&(c as u8)) {
                    code[c] = sigma as u8;
                    sigma += 1;
                }
            }
            let cap = 2 * text.len() + 2;
            let mut s = Sam { sigma, code, next: Vec::with_capacity(cap * sigma), link: Vec::with_capacity(cap), len: Vec::with_capacity(cap), cnt: Vec::with_capacity(cap) };
            s.new_state(0, NONE, 0);
            let mut last = 0u32;
            for &ch in text {
                let c = s.code[ch as usize] as usize;
                let cur = s.new_state(s.len[last as usize] + 1, 0, 1);
                let mut p = last;
                while p != NONE && s.next[p as usize * sigma + c] == NONE {
                    s.next[p as usize * sigma + c] = cur;
                    p = s.link[p as usize];
                }
                if p == NONE {
                    s.link[cur as usize] = 0;
                } else {
                    let q = s.next[p as usize * sigma + c];
                    if s.len[p as usize] + 1 == s.len[q as usize] {
                        s.link[cur as usize] = q;
                    } else {
                        let clone = s.new_state(s.len[p as usize] + 1, s.link[q as usize], 0);
                        for x in 0..sigma {
                            s.next[clone as usize * sigma + x] = s.next[q as usize * sigma + x];
                        }
                        while p != NONE && s.next[p as usize * sigma + c] == q {
                            s.next[p as usize * sigma + c] = clone;
                            p = s.link[p as usize];
                        }
                        s.link[q as usize] = clone;
                        s.link[cur as usize] = clone;
                    }
                }
                last = cur;
            }
            // occurrence counts: propagate along suffix links in order of decreasing len
            let ns = s.len.len();
            let maxlen = text.len();
            let mut bucket = vec![0u32; maxlen + 2];
            for &l in &s.len {
                bucket[l as usize] += 1;
            }
            for i in 1..bucket.len() {
                bucket[i] += bucket[i - 1];
            }
            let mut order = vec![0u32; ns];
            for st in (0..ns).rev() {
                let l = s.len[st] as usize;
                bucket[l] -= 1;
                order[bucket[l] as usize] = st as u32;
            }
            for &st in order.iter().rev() {
                let l = s.link[st as usize];
                if l != NONE {
                    s.cnt[l as usize] += s.cnt[st as usize];
                }
            }
            s
        }

        fn new_state(&mut self, len: u32, link: u32, cnt: u32) -> u32 {
            let id = self.len.len() as u32;
            self.len.push(len);
            self.link.push(link);
            self.cnt.push(cnt);
            self.next.extend(std::iter::repeat(NONE).take(self.sigma));
            id
        }

        /// for every end e in 1..=m: (length of the longest suffix of p[..e] that occurs in the
        /// text, number of its occurrences); index 0 is (0,0)
        pub fn matching_statistics(&self, p: &[u8]) -> Vec<(u32, u32)> {
            let mut out = Vec::with_capacity(p.len() + 1);
            out.push((0u32, 0u32));
            let (mut st, mut l) = (0u32, 0u32);
            for &ch in p {
                let c = self.code[ch as usize];
                if c == 255 {
                    st = 0;
                    l = 0;
                    out.push((0, 0));
                    continue;
                }
                let c = c as usize;
                while st != 0 && self.next[st as usize * self.sigma + c] == NONE {
                    st = self.link[st as usize];
                    l = self.len[st as usize];
                }
                let nx = self.next[st as usize * self.sigma + c];
                if nx != NONE {
                    st = nx;
                    l += 1;
                }
                // the matched string has length l with len(link(st)) < l <= len(st): the count of the
                // state is the count of the string
                out.push((l, if l == 0 { 0 } else { self.cnt[st as usize] }));
            }
            out
        }

        /// all supermaximal exact matches (start, len, occurrences), sorted by start
        pub fn smems(&self, p: &[u8]) -> Vec<(usize, usize, usize)> {
            let ms = self.matching_statistics(p);
            let m = p.len();
            let mut out = Vec::new();
            for e in 1..=m {
                let (l, c) = ms[e];
                if l >= 1 && (e == m || ms[e + 1].0 <= l) {
                    out.push((e - l as usize, l as usize, c as usize));
                }
            }
            out.sort();
            out
        }
    }

    // -----------------------------------------------------------------------------------
    // LadderSub: a sub-check over an ENUMERATED list of parameterised cases (every ladder value is
    // reached by construction, independent of the seed; the seed only feeds the random fillers).
    // Cases are dealt to the shards by estimated weight so that the shards finish together.

    pub struct LadderSub<C: 'static> {
        pub name: &'static str,
        pub cases: fn(Tier, u64) -> Vec<C>,
        pub weight: fn(&C) -> u64,
        pub check: fn(&C) -> R,
        pub shards_quick: u32,
        pub shards_thorough: u32,
        pub must_reach: &'static [&'static str],
    }

    fn fnv64(data: &[u8]) -> u64 {
        let mut h: u64 = 0xcbf29ce484222325;
        for b in data {
            h ^= *b as u64;
            h = h.wrapping_mul(0x100000001b3);
        }
        h
    }

    impl<C> LadderSub<C> {
        /// deterministic longest-processing-time assignment: indices of the cases of `shard`
        fn mine(&self, all: &[C], shard: u32, nshards: u32) -> Vec<usize> {
            let mut idx: Vec<usize> = (0..all.len()).collect();
            let w: Vec<u64> = all.iter().map(|c| (self.weight)(c).max(1)).collect();
            idx.sort_by(|&a, &b| w[b].cmp(&w[a]).then(a.cmp(&b)));
            let mut load = vec![0u64; nshards as usize];
            let mut out = Vec::new();
            for i in idx {
                let mut best = 0usize;
                for s in 1..nshards as usize {
                    if load[s] < load[best] {
                        best = s;
                    }
                }
                load[best] += w[i];
                if best as u32 == shard {
                    out.push(i);
                }
            }
            out
        }
    }

    impl<C> SubCheck for LadderSub<C>
    where
        C: Serialize + DeserializeOwned + Debug + 'static,
    {
        fn name(&self) -> &'static str {
            self.name
        }
        fn planned(&self, tier: Tier) -> u64 {
            (self.cases)(tier, 0).len() as u64
        }
        fn shards(&self, tier: Tier) -> u32 {
            match tier {
                Tier::Quick => self.shards_quick.max(1),
                Tier::Thorough => self.shards_thorough.max(1),
            }
        }
        fn must_reach(&self) -> &'static [&'static str] {
            self.must_reach
        }
        fn exec(&self, p: &RunParams) -> SubStats {
            let t0 = Instant::now();
            let all = (self.cases)(p.tier, p.seed);
            let mine = self.mine(&all, p.shard, p.nshards);
            let mut stats = SubStats { property: p.property.clone(), subcheck: self.name.to_string(), shard: p.shard, ..Default::default() };
            let mut hashes: HashSet<u64> = HashSet::new();
            let mut seen_classes: HashSet<&'static str> = HashSet::new();
            // diagnostic only: VERIF_LADDER_TIMING=1 prints the wall time of every case to stderr
            let timing = std::env::var("VERIF_LADDER_TIMING").is_ok();
            for i in mine {
                let case = &all[i];
                let js = serde_json::to_string(case).expect("case serialises");
                *WATCH.current.lock().unwrap() = Some((Instant::now(), js.clone()));
                let tc = Instant::now();
                let r = guarded(self.check, case);
                *WATCH.current.lock().unwrap() = None;
                if timing {
                    eprintln!("TIMING {:.3} {}", tc.elapsed().as_secs_f64(), js);
                }
                match r {
                    Ok(pass) => {
                        stats.cases += 1;
                        let mut want_sample = false;
                        for c in &pass.classes {
                            *stats.classes.entry((*c).to_string()).or_insert(0) += 1;
                            if seen_classes.insert(*c) && stats.samples.len() < 6 {
                                want_sample = true;
                            }
                        }
                        if pass.nontrivial && hashes.insert(fnv64(js.as_bytes())) {
                            stats.nontrivial += 1;
                        }
                        if want_sample {
                            let v: Value = serde_json::from_str(&js).unwrap_or(Value::Null);
                            stats.samples.push(json!({"subcheck": self.name, "nontrivial": pass.nontrivial, "classes": pass.classes, "case": v}));
                        }
                    }
                    Err(Stop::Skip(sig)) => {
                        *stats.excluded_known.entry(sig.to_string()).or_insert(0) += 1;
                    }
                    Err(Stop::Fail(msg)) => {
                        stats.failure = Some(Failure { message: msg, case: serde_json::to_value(case).unwrap(), replay_path: None });
                        break;
                    }
                }
            }
            stats.nontrivial_hashes = hashes.into_iter().collect();
            stats.nontrivial_hashes.sort_unstable();
            stats.wall_s = t0.elapsed().as_secs_f64();
            stats
        }
        fn replay(&self, case: &Value) -> Result<R, String> {
            let c: C = serde_json::from_value(case.clone()).map_err(|e| format!("cannot decode case: {}", e))?;
            Ok(guarded(self.check, &c))
        }
    }
}


// ======================================================================================
// merged block from the c071718 work
// ======================================================================================
// Helpers shared by the large-scale (`CNN/large-*`) sub-checks.
//
// ======================================================================================
// Block of C07 / C17 / C18 (module `c071718`): deterministic PRNG, the size ladder, class
// labels for ladder values, query-position sampling, watchdog publication for enumerated
// sub-checks.
// ======================================================================================

pub mod c071718 {
    use crate::engine::WATCH;
    use std::collections::HashMap;
    use std::sync::Mutex;
    use std::time::Instant;

    /// splitmix64: the only source of pseudo-randomness inside the large-scale checks (cases store
    /// the seed; the data is expanded deterministically from it)
    #[derive(Clone, Debug)]
    pub struct Rng(pub u64);

    impl Rng {
        pub fn new(seed: u64) -> Rng {
            Rng(seed ^ 0x5851_f42d_4c95_7f2d)
        }
        #[allow(clippy::should_implement_trait)]
        pub fn next(&mut self) -> u64 {
            self.0 = self.0.wrapping_add(0x9e37_79b9_7f4a_7c15);
            let mut z = self.0;
            z = (z ^ (z >> 30)).wrapping_mul(0xbf58_476d_1ce4_e5b9);
            z = (z ^ (z >> 27)).wrapping_mul(0x94d0_49bb_1331_11eb);
            z ^ (z >> 31)
        }
        /// uniform in 0..n (n >= 1)
        pub fn below(&mut self, n: u64) -> u64 {
            ((self.next() as u128 * n as u128) >> 64) as u64
        }
        /// true with probability num/den
        pub fn chance(&mut self, num: u64, den: u64) -> bool {
            self.below(den) < num
        }
        /// Fisher-Yates
        pub fn shuffle<T>(&mut self, v: &mut [T]) {
            for i in (1..v.len()).rev() {
                let j = self.below(i as u64 + 1) as usize;
                v.swap(i, j);
            }
        }
    }

    /// the thresholds every independent size parameter is pushed across
    pub const LADDER: [u64; 34] = [
        255, 256, 257, 511, 512, 513, 1023, 1024, 1025, 4095, 4096, 4097, 8191, 8192, 8193, 16383, 16384, 16385, 32767, 32768, 32769, 65535, 65536, 65537,
        70001, 131071, 131072, 131073, 524287, 524288, 524289, 1048575, 1048576, 1048577,
    ];

    pub fn ladder_upto(max: u64) -> Vec<u64> {
        LADDER.iter().copied().filter(|&v| v <= max).collect()
    }

    /// 2^k-1, 2^k, 2^k+1 for k in lo..=hi
    pub fn pow2_triples(lo: u32, hi: u32) -> Vec<u64> {
        (lo..=hi).flat_map(|k| [(1u64 << k) - 1, 1u64 << k, (1u64 << k) + 1]).collect()
    }

    pub fn is_ladder(v: u64) -> bool {
        LADDER.contains(&v)
    }

    /// class labels must be `&'static str`; labels that carry a number are interned
    pub fn intern(s: String) -> &'static str {
        static TABLE: Mutex<Option<HashMap<String, &'static str>>> = Mutex::new(None);
        let mut g = TABLE.lock().unwrap();
        let t = g.get_or_insert_with(HashMap::new);
        if let Some(x) = t.get(&s) {
            return x;
        }
        let leaked: &'static str = Box::leak(s.clone().into_boxed_str());
        t.insert(s, leaked);
        leaked
    }

    /// "<what> = <v>"
    pub fn lab(what: &str, v: u64) -> &'static str {
        intern(format!("{} = {}", what, v))
    }

    /// the `must_reach` list "<what> = v" for every v
    pub fn labels(what: &str, values: &[u64]) -> Vec<&'static str> {
        values.iter().map(|&v| lab(what, v)).collect()
    }

    pub fn leak_list(v: Vec<&'static str>) -> &'static [&'static str] {
        Box::leak(v.into_boxed_slice())
    }

    /// Sorted, de-duplicated sample of 0..n: first/last, every ladder value +-2, every `extra` value +-2
    /// (block boundaries), and `random` pseudo-random positions.
    pub fn sample_positions(n: u64, extra: &[u64], rng: &mut Rng, random: usize) -> Vec<u64> {
        let mut v: Vec<u64> = Vec::new();
        if n == 0 {
            return v;
        }
        let around = |x: u64, v: &mut Vec<u64>| {
            for d in -2i64..=2 {
                let y = x as i128 + d as i128;
                if y >= 0 && (y as u64) < n {
                    v.push(y as u64);
                }
            }
        };
        around(0, &mut v);
        around(n - 1, &mut v);
        for &l in LADDER.iter() {
            around(l, &mut v);
        }
        for &e in extra {
            around(e, &mut v);
        }
        for _ in 0..random {
            v.push(rng.below(n));
        }
        v.sort_unstable();
        v.dedup();
        v
    }

    /// Enumerated sub-checks are not published to the in-process watchdog by the engine; the large-scale
    /// checks publish themselves so that a library loop that never ends above a size threshold is dumped
    /// and confirmed like any other hang instead of blocking the worker.
    pub fn watched<T>(case_json: String, f: impl FnOnce() -> T) -> T {
        struct Clear;
        impl Drop for Clear {
            fn drop(&mut self) {
                // also runs when the code under test panics (the engine catches the panic further up)
                if let Ok(mut g) = WATCH.current.lock() {
                    *g = None;
                }
            }
        }
        *WATCH.current.lock().unwrap() = Some((Instant::now(), case_json));
        let _clear = Clear;
        f()
    }
}


// ======================================================================================
// merged block from the c141516 work
// ======================================================================================
// Helpers of the large-scale (`CNN/large...`) sub-checks.

// ===========================================================================
// ==== block of C14 / C15 / C16 (module `c141516`, macro `rung_label_c141516`)
// ===========================================================================

/// `rung_label_c141516!("S", v)` -> `Option<&'static str>`: the class label "S in 255..257" .. of the
/// threshold ladder the value lies on (2^k - 1 ..= 2^k + 1 for k = 8, 9, 10, 11, 12 .. 23, and ~70 000).
#[macro_export]
macro_rules! rung_label_c141516 {
    ($what:literal, $v:expr) => {{
        let v: u64 = $v as u64;
        match v {
            255..=257 => Some(concat!($what, " in 255..257")),
            511..=513 => Some(concat!($what, " in 511..513")),
            1023..=1025 => Some(concat!($what, " in 1023..1025")),
            2047..=2049 => Some(concat!($what, " in 2047..2049")),
            4095..=4097 => Some(concat!($what, " in 4095..4097")),
            8191..=8193 => Some(concat!($what, " in 8191..8193")),
            16383..=16385 => Some(concat!($what, " in 16383..16385")),
            32767..=32769 => Some(concat!($what, " in 32767..32769")),
            65535..=65537 => Some(concat!($what, " in 65535..65537")),
            69_000..=71_000 => Some(concat!($what, " ~70000")),
            131071..=131073 => Some(concat!($what, " in 131071..131073")),
            262143..=262145 => Some(concat!($what, " in 262143..262145")),
            524287..=524289 => Some(concat!($what, " in 2^19-1..2^19+1")),
            1048575..=1048577 => Some(concat!($what, " in 2^20-1..2^20+1")),
            2097151..=2097153 => Some(concat!($what, " in 2^21-1..2^21+1")),
            4194303..=4194305 => Some(concat!($what, " in 2^22-1..2^22+1")),
            8388607..=8388609 => Some(concat!($what, " in 2^23-1..2^23+1")),
            _ => None,
        }
    }};
}

pub mod c141516 {
    /// splitmix64: the only source of pseudo-random data inside the large-scale checks. A case stores
    /// `{sizes, kind, seed}`; the check expands it deterministically with this generator (neither the
    /// library under test nor std randomness is involved).
    #[derive(Clone, Debug)]
    pub struct Sm64(pub u64);

    impl Sm64 {
        pub fn new(seed: u64) -> Sm64 {
            Sm64(seed)
        }
        /// independent stream `k` of the same seed
        pub fn stream(seed: u64, k: u64) -> Sm64 {
            let mut a = Sm64(seed ^ k.wrapping_mul(0xd6e8feb86659fd93));
            let s = a.next();
            Sm64(s)
        }
        #[inline]
        pub fn next(&mut self) -> u64 {
            self.0 = self.0.wrapping_add(0x9e3779b97f4a7c15);
            let mut z = self.0;
            z = (z ^ (z >> 30)).wrapping_mul(0xbf58476d1ce4e5b9);
            z = (z ^ (z >> 27)).wrapping_mul(0x94d049bb133111eb);
            z ^ (z >> 31)
        }
        /// uniform in 0..n (n >= 1), multiply-shift
        #[inline]
        pub fn below(&mut self, n: u64) -> u64 {
            (((self.next() >> 32) as u128 * n as u128) >> 32) as u64
        }
        /// uniform in [0, 1)
        #[inline]
        pub fn unit(&mut self) -> f64 {
            (self.next() >> 11) as f64 / (1u64 << 53) as f64
        }
    }

    /// Publishes the case to the engine's in-process watchdog for the duration of a check, unless the
    /// engine has already published one (sub-checks registered with `watch: true`, replays). Bounded-
    /// exhaustive ladder sub-checks are not published by the engine; with this guard a case on which the
    /// code under test does not terminate or allocates without bound is dumped, re-run twice by the parent
    /// and reported as a violation instead of ending the run as inconclusive.
    pub struct Published(bool);

    pub fn publish<C: serde::Serialize>(c: &C) -> Published {
        let mut cur = crate::engine::WATCH.current.lock().unwrap();
        if cur.is_none() {
            *cur = Some((std::time::Instant::now(), serde_json::to_string(c).unwrap_or_else(|_| "null".to_string())));
            Published(true)
        } else {
            Published(false)
        }
    }

    impl Drop for Published {
        fn drop(&mut self) {
            if self.0 {
                if let Ok(mut cur) = crate::engine::WATCH.current.lock() {
                    *cur = None;
                }
            }
        }
    }

    /// centres of the threshold ladder (2^k and 70 000) up to `max`; the rung of a centre c is c-1, c, c+1
    pub fn centres(max: u64) -> Vec<u64> {
        [256u64, 512, 1024, 4096, 8192, 16384, 32768, 65536, 70_000, 131_072, 1 << 19, 1 << 20]
            .iter()
            .cloned()
            .filter(|&c| c + 1 <= max)
            .collect()
    }

    /// the three (for 70 000: one) values of a rung
    pub fn rung_values(centre: u64) -> Vec<u64> {
        if centre == 70_000 {
            vec![70_000]
        } else {
            vec![centre - 1, centre, centre + 1]
        }
    }

    /// all ladder values up to `max`
    pub fn ladder(max: u64) -> Vec<u64> {
        centres(max).into_iter().flat_map(rung_values).collect()
    }
}

// ======================================================================================
// merged block from the c111213 work
// ======================================================================================
// Helpers of the large-scale (`CNN/large-*`) sub-checks.
//
// Every group of properties keeps its helpers in its own sub-module so that blocks written
// independently can be merged by concatenation.

// ===========================================================================
// ---- block of C11 / C12 / C13 (FASTA/FASTQ, indexed FASTA, BED/GFF) -------
// ===========================================================================
pub mod c111213 {
    use crate::engine::{known, WATCH};
    use std::collections::HashMap;
    use std::io::{self, Read, Seek, SeekFrom};
    use std::sync::{Mutex, OnceLock};
    use std::time::Instant;

    /// centres of the threshold ladder; every centre c stands for the three values c-1, c, c+1
    pub const CENTRES: &[u64] = &[256, 512, 1024, 4096, 8192, 16384, 32768, 65536, 70_000, 131_072, 1 << 19, 1 << 20];
    /// centres reached by the quick tier for parameters whose single case stays cheap at 2^20
    pub const QUICK_TOP: u64 = 1 << 20;

    /// the ladder values (c-1, c, c+1 for every centre) up to and including `max_centre`
    pub fn ladder(max_centre: u64) -> Vec<u64> {
        let mut v = Vec::new();
        for &c in CENTRES {
            if c <= max_centre {
                v.extend([c - 1, c, c + 1]);
            }
        }
        v
    }

    /// name of the band a value lies in: "255..257" for the three values around a centre, otherwise the gap
    pub fn band(n: u64) -> String {
        let mut below = 0u64;
        for &c in CENTRES {
            if n + 1 >= c && n <= c + 1 {
                return format!("{}..{}", c - 1, c + 1);
            }
            if n < c - 1 {
                return format!("between {} and {}", below, c - 1);
            }
            below = c + 1;
        }
        format!("above {}", below)
    }

    /// class labels must be `&'static str`; the set of labels is small and fixed, each distinct label is leaked once
    pub fn intern(s: String) -> &'static str {
        static M: OnceLock<Mutex<HashMap<String, &'static str>>> = OnceLock::new();
        let mut m = M.get_or_init(|| Mutex::new(HashMap::new())).lock().unwrap();
        if let Some(l) = m.get(&s) {
            return l;
        }
        let l: &'static str = Box::leak(s.clone().into_boxed_str());
        m.insert(s, l);
        l
    }

    /// "<param> in 65535..65537"
    pub fn band_label(param: &str, n: u64) -> &'static str {
        intern(format!("{} in {}", param, band(n)))
    }

    pub fn mix(mut z: u64) -> u64 {
        z = z.wrapping_add(0x9e3779b97f4a7c15);
        z = (z ^ (z >> 30)).wrapping_mul(0xbf58476d1ce4e5b9);
        z = (z ^ (z >> 27)).wrapping_mul(0x94d049bb133111eb);
        z ^ (z >> 31)
    }

    /// splitmix64 stream; the only source of pseudo-randomness inside the large checks
    #[derive(Clone, Debug)]
    pub struct Sm(pub u64);

    impl Sm {
        pub fn new(seed: u64, salt: u64) -> Sm {
            Sm(mix(seed ^ mix(salt)))
        }
        pub fn next(&mut self) -> u64 {
            self.0 = self.0.wrapping_add(0x9e3779b97f4a7c15);
            let mut z = self.0;
            z = (z ^ (z >> 30)).wrapping_mul(0xbf58476d1ce4e5b9);
            z = (z ^ (z >> 27)).wrapping_mul(0x94d049bb133111eb);
            z ^ (z >> 31)
        }
        /// uniform in 0..n (n >= 1)
        pub fn below(&mut self, n: u64) -> u64 {
            ((self.next() as u128 * n.max(1) as u128) >> 64) as u64
        }
        /// uniform in lo..=hi
        pub fn range(&mut self, lo: u64, hi: u64) -> u64 {
            lo + self.below(hi - lo + 1)
        }
        pub fn coin(&mut self) -> bool {
            self.next() & 1 == 1
        }
    }

    /// Publishes the case to the in-process watchdog for the duration of a check that is driven by
    /// an enumerating sub-check (the engine publishes only for random sub-checks with `watch: true`):
    /// a call into the library that never returns is then reported as a non-termination of THIS case
    /// instead of as a dead worker.  The guard clears the publication also when the check unwinds.
    pub struct Published;

    pub fn publish<C: serde::Serialize>(case: &C) -> Published {
        let js = serde_json::to_string(case).unwrap_or_else(|_| "null".to_string());
        *WATCH.current.lock().unwrap() = Some((Instant::now(), js));
        Published
    }

    impl Drop for Published {
        fn drop(&mut self) {
            if let Ok(mut c) = WATCH.current.lock() {
                *c = None;
            }
        }
    }

    /// Temporary files of one case under `$VERIF_DIR/run/tmp-<property>/`; names carry the process id
    /// (workers run in parallel) and a per-case slot name; everything is removed when the value is dropped.
    pub struct TmpFiles {
        dir: String,
        made: Vec<String>,
    }

    impl TmpFiles {
        pub fn new(property: &str) -> io::Result<TmpFiles> {
            let dir = format!("{}/run/tmp-{}", known::verif_dir(), property);
            std::fs::create_dir_all(&dir)?;
            Ok(TmpFiles { dir, made: Vec::new() })
        }
        /// the path of slot `name` (stable within the case, so that histories can reuse one path)
        pub fn path(&mut self, name: &str) -> String {
            let p = format!("{}/p{}-{}", self.dir, std::process::id(), name);
            if !self.made.contains(&p) {
                self.made.push(p.clone());
            }
            p
        }
    }

    impl Drop for TmpFiles {
        fn drop(&mut self) {
            for p in &self.made {
                let _ = std::fs::remove_file(p);
            }
        }
    }

    /// `Read + Seek` over a file that exists only as a function `byte_at(offset)`: lets the indexed
    /// reader work on files far larger than memory (record offsets / start positions beyond 2^32).
    /// `chunk` bounds what one `read()` delivers.
    pub struct VirtualFile<F: Fn(u64) -> u8> {
        pub len: u64,
        pub pos: u64,
        pub chunk: usize,
        pub byte_at: F,
        pub reads: u64,
        pub seeks: u64,
    }

    impl<F: Fn(u64) -> u8> VirtualFile<F> {
        pub fn new(len: u64, chunk: usize, byte_at: F) -> Self {
            VirtualFile { len, pos: 0, chunk: chunk.max(1), byte_at, reads: 0, seeks: 0 }
        }
    }

    impl<F: Fn(u64) -> u8> Read for VirtualFile<F> {
        fn read(&mut self, buf: &mut [u8]) -> io::Result<usize> {
            let remaining = self.len.saturating_sub(self.pos);
            let n = (buf.len() as u64).min(remaining).min(self.chunk as u64) as usize;
            for (i, b) in buf[..n].iter_mut().enumerate() {
                *b = (self.byte_at)(self.pos + i as u64);
            }
            self.pos += n as u64;
            self.reads += 1;
            Ok(n)
        }
    }

    impl<F: Fn(u64) -> u8> Seek for VirtualFile<F> {
        fn seek(&mut self, to: SeekFrom) -> io::Result<u64> {
            let target: i128 = match to {
                SeekFrom::Start(n) => n as i128,
                SeekFrom::End(d) => self.len as i128 + d as i128,
                SeekFrom::Current(d) => self.pos as i128 + d as i128,
            };
            if target < 0 || target > u64::MAX as i128 {
                return Err(io::Error::new(io::ErrorKind::InvalidInput, "seek to a negative or overflowing position"));
            }
            self.pos = target as u64;
            self.seeks += 1;
            Ok(self.pos)
        }
    }

    #[cfg(test)]
    mod tests {
        use super::*;

        #[test]
        fn bands() {
            assert_eq!(band(255), "255..257");
            assert_eq!(band(257), "255..257");
            assert_eq!(band(258), "between 257 and 511");
            assert_eq!(band(3), "between 0 and 255");
            assert_eq!(band(70_001), "69999..70001");
            assert_eq!(band((1 << 20) + 1), "1048575..1048577");
            assert_eq!(band((1 << 20) + 2), "above 1048577");
            assert_eq!(ladder(512), vec![255, 256, 257, 511, 512, 513]);
        }
    }
}

