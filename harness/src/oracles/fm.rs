//! Independent references for the FM-/FMD-index properties (C05, C06):
//! DNA complement written from the definition (not `bio::alphabets::dna`),
//! construction of the two-strand text, brute-force SMEMs.

use super::naive_find;

/// Complement over the DNA alphabet with N, either case (case preserved, N fixed).
/// `None` for every other byte.
pub fn comp(c: u8) -> Option<u8> {
    Some(match c {
        b'A' => b'T',
        b'T' => b'A',
        b'C' => b'G',
        b'G' => b'C',
        b'N' => b'N',
        b'a' => b't',
        b't' => b'a',
        b'c' => b'g',
        b'g' => b'c',
        b'n' => b'n',
        _ => return None,
    })
}

/// Reverse complement; panics on a symbol outside ACGTNacgtn (harness error).
pub fn revcomp(s: &[u8]) -> Vec<u8> {
    s.iter().rev().map(|&c| comp(c).expect("revcomp: symbol outside ACGTNacgtn")).collect()
}

/// text = concat(s $ revcomp(s) $ for s in seqs)
pub fn fmd_text(seqs: &[Vec<u8>]) -> Vec<u8> {
    let mut t = Vec::new();
    for s in seqs {
        t.extend_from_slice(s);
        t.push(b'$');
        t.extend_from_slice(&revcomp(s));
        t.push(b'$');
    }
    t
}

/// occurrence positions (sorted) of a non-empty string in the text
pub fn occurrences(p: &[u8], text: &[u8]) -> Vec<usize> {
    naive_find(p, text)
}

/// All supermaximal exact matches of `p` against `text` as (start, len), sorted:
/// substrings p[a..e) that occur in `text` while neither p[a-1..e) nor p[a..e+1) occurs.
pub fn brute_smems(p: &[u8], text: &[u8]) -> Vec<(usize, usize)> {
    let m = p.len();
    // occ[a][e] for 0 <= a < e <= m
    let occurs = |a: usize, e: usize| -> bool { !naive_find(&p[a..e], text).is_empty() };
    let mut out = Vec::new();
    for a in 0..m {
        for e in a + 1..=m {
            if !occurs(a, e) {
                break; // longer ones from the same start cannot occur either
            }
            let left = a > 0 && occurs(a - 1, e);
            let right = e < m && occurs(a, e + 1);
            if !left && !right {
                out.push((a, e - a));
            }
        }
    }
    out.sort();
    out
}
