//! Tiny deterministic PRNG (splitmix64) used by large-scale sub-checks to expand a small,
//! serialisable case description (sizes, kinds, seed) into megabyte-sized inputs. It is part of
//! the *generator*: the check stays a pure function of the serialised case.

#[derive(Clone)]
pub struct Sm(pub u64);

impl Sm {
    pub fn new(seed: u64) -> Sm {
        Sm(seed ^ 0x9e3779b97f4a7c15)
    }
    pub fn next(&mut self) -> u64 {
        self.0 = self.0.wrapping_add(0x9e3779b97f4a7c15);
        let mut z = self.0;
        z = (z ^ (z >> 30)).wrapping_mul(0xbf58476d1ce4e5b9);
        z = (z ^ (z >> 27)).wrapping_mul(0x94d049bb133111eb);
        z ^ (z >> 31)
    }
    /// uniform in 0..n (n >= 1)
    pub fn below(&mut self, n: u64) -> u64 {
        ((self.next() as u128 * n as u128) >> 64) as u64
    }
    pub fn bytes(&mut self, n: usize, sigma: u16, base: u8) -> Vec<u8> {
        (0..n).map(|_| if sigma >= 256 { self.next() as u8 } else { base + self.below(sigma as u64) as u8 }).collect()
    }
}

/// The ladder of size thresholds the large-scale sub-checks must cross.
pub const LADDER: &[usize] = &[255, 256, 257, 511, 512, 513, 1023, 1024, 1025, 4095, 4096, 4097, 8191, 8192, 8193, 16383, 16384, 16385, 32767, 32768, 32769, 65535, 65536, 65537, 70000, 131071, 131072, 131073];

pub fn ladder_label(n: usize) -> Option<&'static str> {
    Some(match n {
        255..=257 => "size in 255..257",
        511..=513 => "size in 511..513",
        1023..=1025 => "size in 1023..1025",
        4095..=4097 => "size in 4095..4097",
        8191..=8193 => "size in 8191..8193",
        16383..=16385 => "size in 16383..16385",
        32767..=32769 => "size in 32767..32769",
        65535..=65537 => "size in 65535..65537",
        65538..=131070 => "size between 2^16 and 2^17",
        131071..=131073 => "size in 131071..131073",
        _ => return None,
    })
}
