//! Shared pieces of C03 (suffix array / LCP / SUS / sampled SA) and C04 (BWT / less / Occ):
//! independent oracles (direct suffix comparison, brute-force SUS, naive suffix sort),
//! an SA-IS *profile* used only for class labels, and the text generators.

use std::cmp::Ordering;

/// printable, length-capped rendering of a text for failure messages
pub fn show(t: &[u8]) -> String {
    let printable = t.iter().all(|&c| (0x20..0x7f).contains(&c));
    let cap = 240;
    let body: String = if printable {
        String::from_utf8_lossy(&t[..t.len().min(cap)]).into_owned()
    } else {
        t[..t.len().min(cap / 2)].iter().map(|b| format!("{:02x}", b)).collect::<Vec<_>>().join(" ")
    };
    if (printable && t.len() > cap) || (!printable && t.len() > cap / 2) {
        format!("{:?}.. (n={})", body, t.len())
    } else {
        format!("{:?} (n={})", body, t.len())
    }
}

pub fn show_vec<T: std::fmt::Debug>(v: &[T]) -> String {
    if v.len() <= 80 {
        format!("{:?}", v)
    } else {
        format!("{:?}.. (len={})", &v[..80], v.len())
    }
}

/// is `text` inside the domain of C03/C04: non-empty, last symbol is the smallest
pub fn in_domain(text: &[u8]) -> bool {
    match text.last() {
        None => false,
        Some(&s) => text.iter().all(|&c| c >= s),
    }
}

pub fn sentinel_positions(text: &[u8]) -> Vec<usize> {
    let s = text[text.len() - 1];
    (0..text.len()).filter(|&p| text[p] == s).collect()
}

/// Compare the suffixes starting at a != b where every sentinel occurrence is its own
/// symbol, smaller than every other symbol, and sentinel occurrences compare by `srank`
/// (indexed by text position). Returns (ordering, number of equal leading symbols).
/// The last text position is a sentinel occurrence, so the scan ends inside the text.
pub fn cmp_suffix(text: &[u8], sentinel: u8, srank: &[usize], a: usize, b: usize) -> (Ordering, usize) {
    debug_assert!(a != b);
    let mut l = 0usize;
    loop {
        let (x, y) = (text[a + l], text[b + l]);
        let (sx, sy) = (x == sentinel, y == sentinel);
        if sx || sy {
            let o = if sx && sy {
                srank[a + l].cmp(&srank[b + l])
            } else if sx {
                Ordering::Less
            } else {
                Ordering::Greater
            };
            return (o, l);
        }
        if x != y {
            return (x.cmp(&y), l);
        }
        l += 1;
    }
}

/// What the oracle learnt about a *valid* suffix array.
pub struct SaFacts {
    pub sentinels: usize,
    /// adj_lcp[r] (1 <= r < n) = number of equal leading symbols of suffix sa[r-1] and sa[r]
    /// (sentinel occurrences are pairwise different symbols); adj_lcp[0] = 0
    pub adj_lcp: Vec<usize>,
}

/// C03 oracle for byte texts. Checks: permutation; sa[0] = n-1; the first #sentinel entries
/// are exactly the sentinel positions; strictly increasing under the single comparison in
/// which sentinel occurrence p has the rank it has inside sa[0..#sentinels].
pub fn verify_sa_bytes(text: &[u8], sa: &[usize]) -> Result<SaFacts, String> {
    let n = text.len();
    let sentinel = text[n - 1];
    if sa.len() != n {
        return Err(format!("text {}: suffix array has length {}, expected {}; sa={}", show(text), sa.len(), n, show_vec(sa)));
    }
    let mut seen = vec![false; n];
    for (r, &p) in sa.iter().enumerate() {
        if p >= n {
            return Err(format!("text {}: sa[{}]={} is not a text position; sa={}", show(text), r, p, show_vec(sa)));
        }
        if seen[p] {
            return Err(format!("text {}: position {} occurs twice (again at sa[{}]), not a permutation; sa={}", show(text), p, r, show_vec(sa)));
        }
        seen[p] = true;
    }
    if sa[0] != n - 1 {
        return Err(format!("text {}: the final sentinel (position {}) must be the smallest suffix but sa[0]={}; sa={}", show(text), n - 1, sa[0], show_vec(sa)));
    }
    let m = text.iter().filter(|&&c| c == sentinel).count();
    let mut srank = vec![usize::MAX; n];
    for r in 0..m {
        let p = sa[r];
        if text[p] != sentinel {
            return Err(format!(
                "text {}: {} sentinel occurrences must occupy sa[0..{}] (sentinel below all other symbols) but sa[{}]={} starts with symbol {:#04x}; sa={}",
                show(text), m, m, r, p, text[p], show_vec(sa)
            ));
        }
        srank[p] = r;
    }
    let mut adj = vec![0usize; n];
    for r in 1..n {
        let (o, l) = cmp_suffix(text, sentinel, &srank, sa[r - 1], sa[r]);
        if o != Ordering::Less {
            return Err(format!(
                "text {}: suffix at sa[{}]={} is not smaller than suffix at sa[{}]={} (first difference after {} symbols; sentinel occurrences ordered as in sa[0..{}]={}); sa={}",
                show(text), r - 1, sa[r - 1], r, sa[r], l, m, show_vec(&sa[..m]), show_vec(sa)
            ));
        }
        adj[r] = l;
    }
    Ok(SaFacts { sentinels: m, adj_lcp: adj })
}

/// Naive suffix array by comparison sort; sentinel occurrences ordered by decreasing
/// position (the final one smallest) — one of the orders C03 allows.
pub fn naive_sa(text: &[u8]) -> Vec<usize> {
    let n = text.len();
    let sentinel = text[n - 1];
    let mut srank = vec![usize::MAX; n];
    for p in 0..n {
        if text[p] == sentinel {
            srank[p] = n - 1 - p;
        }
    }
    let mut sa: Vec<usize> = (0..n).collect();
    sa.sort_by(|&a, &b| if a == b { Ordering::Equal } else { cmp_suffix(text, sentinel, &srank, a, b).0 });
    sa
}

// ---------------------------------------------------------------------------
// shortest unique substrings, three independent ways

fn occurrences(text: &[u8], w: &[u8]) -> usize {
    if w.len() > text.len() {
        return 0;
    }
    (0..=text.len() - w.len()).filter(|&q| &text[q..q + w.len()] == w).count()
}

/// by definition: smallest len such that text[p..p+len] occurs exactly once in the text
pub fn sus_by_definition(text: &[u8]) -> Vec<Option<usize>> {
    let n = text.len();
    (0..n).map(|p| (1..=n - p).find(|&len| occurrences(text, &text[p..p + len]) == 1)).collect()
}

/// 1 + the longest prefix shared with any other suffix (valid when the last symbol is unique:
/// then every suffix is unique and the shared prefix ends inside both suffixes)
pub fn sus_by_pairwise(text: &[u8]) -> Vec<Option<usize>> {
    let n = text.len();
    (0..n)
        .map(|p| {
            let mut best = 0usize;
            for q in 0..n {
                if q != p {
                    let mut l = 0;
                    while p + l < n && q + l < n && text[p + l] == text[q + l] {
                        l += 1;
                    }
                    best = best.max(l);
                }
            }
            if best + 1 <= n - p { Some(best + 1) } else { None }
        })
        .collect()
}

// ---------------------------------------------------------------------------
// SA-IS profile (class labels only — never part of an oracle)

#[derive(Debug, Default, Clone)]
pub struct SaisProfile {
    /// number of LMS positions of the input text
    pub lms: usize,
    /// number of nested recursive constructions a textbook SA-IS performs
    pub depth: usize,
    /// largest number of LMS substrings on any level
    pub max_lms: usize,
}

/// the integer text `suffix_array` feeds to SA-IS on the pinned tree: sentinel occurrences get
/// distinct decreasing ranks, other symbols their rank shifted above
pub fn transformed(text: &[u8]) -> Vec<usize> {
    let n = text.len();
    let sentinel = text[n - 1];
    let mut present = [false; 256];
    for &c in text {
        present[c as usize] = true;
    }
    let mut rank = [0usize; 256];
    let mut r = 0;
    for c in 0..256 {
        if present[c] {
            rank[c] = r;
            r += 1;
        }
    }
    let count = text.iter().filter(|&&c| c == sentinel).count();
    let mut s = count;
    text.iter()
        .map(|&c| {
            if c == sentinel {
                s -= 1;
                s
            } else {
                rank[c as usize] + count - 1
            }
        })
        .collect()
}

pub fn sais_profile(text: &[usize]) -> SaisProfile {
    let mut prof = SaisProfile::default();
    let mut text: Vec<usize> = text.to_vec();
    let mut level = 0;
    loop {
        let n = text.len();
        if n < 2 {
            break;
        }
        let mut s = vec![false; n];
        s[n - 1] = true;
        for p in (0..n - 1).rev() {
            s[p] = if text[p] == text[p + 1] { s[p + 1] } else { text[p] < text[p + 1] };
        }
        let lms: Vec<usize> = (1..n).filter(|&p| s[p] && !s[p - 1]).collect();
        let m = lms.len();
        if level == 0 {
            prof.lms = m;
        }
        prof.max_lms = prof.max_lms.max(m);
        if m <= 1 {
            break;
        }
        let coded: Vec<usize> = (0..n).map(|p| text[p] * 2 + s[p] as usize).collect();
        let sub = |j: usize| -> &[usize] {
            let a = lms[j];
            let b = if j + 1 < m { lms[j + 1] } else { a };
            &coded[a..=b]
        };
        let mut order: Vec<usize> = (0..m).collect();
        order.sort_by(|&i, &j| sub(i).cmp(sub(j)));
        let mut names = vec![0usize; m];
        let mut name = 0;
        for w in 1..m {
            if sub(order[w - 1]) != sub(order[w]) {
                name += 1;
            }
            names[order[w]] = name;
        }
        if name + 1 == m {
            break;
        }
        prof.depth += 1;
        level += 1;
        text = names;
    }
    prof
}

// ---------------------------------------------------------------------------
// alphabets handed to less / Occ

/// text symbols + extra symbols; the sentinel is left out only when asked to *and* it is `$`
/// *and* a larger symbol is present (Occ::new adds `$` itself in exactly that situation —
/// the documented DNA-alphabet usage)
pub fn alphabet_for(text: &[u8], extra: &[u8], with_sentinel: bool) -> Vec<u8> {
    let sentinel = text[text.len() - 1];
    let mut present = [false; 256];
    for &c in text.iter().chain(extra.iter()) {
        present[c as usize] = true;
    }
    let larger = (sentinel as usize + 1..256).any(|c| present[c]);
    present[sentinel as usize] = !(sentinel == b'$' && !with_sentinel && larger);
    (0..256usize).filter(|&c| present[c]).map(|c| c as u8).collect()
}

// ---------------------------------------------------------------------------
// generators

pub mod textgen {
    use crate::engine::gen::idx;
    use proptest::collection::vec;
    use proptest::prelude::*;
    use proptest::strategy::Union;

    /// body in symbol indices: 0 = sentinel, i >= 1 = i-th body symbol
    #[derive(Debug, Clone)]
    pub enum Body {
        Plain(Vec<u16>),
        Runs(Vec<(u16, u16)>),
        Morphic { a: u16, b: u16, thue_morse: bool, off: u16, len: usize },
        Periodic { unit: Vec<u16>, len: usize },
        Repeat { pre: Vec<u16>, x: Vec<u16>, mid: Vec<u16>, post: Vec<u16> },
        AllSyms { perm: Vec<u16>, more: Vec<u16> },
    }

    fn fib_word(len: usize) -> Vec<bool> {
        // infinite Fibonacci word: f0 = a, f1 = ab, f(k) = f(k-1) f(k-2)
        let (mut prev, mut cur) = (vec![false], vec![false, true]);
        while cur.len() < len {
            let mut next = cur.clone();
            next.extend_from_slice(&prev);
            prev = cur;
            cur = next;
        }
        cur.truncate(len);
        cur
    }

    impl Body {
        pub fn materialise(&self) -> Vec<u16> {
            match self {
                Body::Plain(v) => v.clone(),
                Body::Runs(r) => r.iter().flat_map(|&(c, k)| std::iter::repeat(c).take(k as usize)).collect(),
                Body::Morphic { a, b, thue_morse, off, len } => {
                    let off = *off as usize;
                    let bits: Vec<bool> = if *thue_morse {
                        (off..off + len).map(|i| (i.count_ones() & 1) == 1).collect()
                    } else {
                        fib_word(off + len)[off..].to_vec()
                    };
                    bits.into_iter().map(|x| if x { *b } else { *a }).collect()
                }
                Body::Periodic { unit, len } => unit.iter().cycle().take(*len).cloned().collect(),
                Body::Repeat { pre, x, mid, post } => {
                    let mut v = pre.clone();
                    v.extend_from_slice(x);
                    v.extend_from_slice(mid);
                    v.extend_from_slice(x);
                    v.extend_from_slice(post);
                    v
                }
                Body::AllSyms { perm, more } => {
                    let mut v = perm.clone();
                    v.extend_from_slice(more);
                    v
                }
            }
        }
    }

    fn body(l: usize) -> BoxedStrategy<Body> {
        let run_max = l.clamp(1, 260) as u16;
        let mut alts: Vec<(u32, BoxedStrategy<Body>)> = vec![
            (4, (1u16..=4).prop_flat_map(move |sg| vec(1..=sg, 0..=l)).prop_map(Body::Plain).boxed()),
            (2, vec((1u16..=3, 1u16..=run_max), 1..=6).prop_map(Body::Runs).boxed()),
            (
                2,
                (1u16..=3, 1u16..=3, any::<bool>(), 0u16..=40, 0..=l)
                    .prop_map(|(a, b, thue_morse, off, len)| Body::Morphic { a, b, thue_morse, off, len })
                    .boxed(),
            ),
            (2, (vec(1u16..=3, 1..=6), 0..=l).prop_map(|(unit, len)| Body::Periodic { unit, len }).boxed()),
            (
                2,
                (prop_oneof![Just(2u16), Just(4), Just(255)], 0..=l / 2)
                    .prop_flat_map(|(sg, xl)| (vec(1..=sg, 0..=4), vec(1..=sg, xl / 2..=xl), vec(1..=sg, 0..=4), vec(1..=sg, 0..=4)))
                    .prop_map(|(pre, x, mid, post)| Body::Repeat { pre, x, mid, post })
                    .boxed(),
            ),
            (1, vec(1u16..=255, 0..=l).prop_map(Body::Plain).boxed()),
        ];
        if l >= 256 {
            alts.push((
                2,
                (Just((1u16..=255).collect::<Vec<u16>>()).prop_shuffle(), vec(1u16..=255, 0..=100)).prop_map(|(perm, more)| Body::AllSyms { perm, more }).boxed(),
            ));
        }
        Union::new_weighted(alts).boxed()
    }

    #[derive(Debug, Clone, Copy)]
    pub enum Kind {
        /// body symbols directly above the sentinel
        Adjacent,
        /// A C G T for up to four symbols
        Dna,
        /// 0xff downwards
        High,
    }

    pub fn map_symbol(sentinel: u8, kind: Kind, sigma: u16, i: u16) -> u8 {
        let w = 255 - sentinel as u16; // number of byte values above the sentinel
        let i = 1 + (i - 1) % w;
        match kind {
            Kind::Dna if sigma <= 4 => b"ACGT"[(i - 1) as usize],
            Kind::High => (256 - i) as u8,
            _ => (sentinel as u16 + i) as u8,
        }
    }

    /// One text = body + trailing sentinel. `l` bounds the body length.
    fn text_of(l: usize) -> BoxedStrategy<Vec<u8>> {
        let sentinel = prop_oneof![5 => Just(b'$'), 1 => Just(b'!'), 1 => Just(b'#'), 2 => Just(0u8)];
        let kind = prop_oneof![2 => Just(Kind::Adjacent), 3 => Just(Kind::Dna), 1 => Just(Kind::High)];
        // probability (percent) of inserting a sentinel occurrence before a body symbol
        let pct = prop_oneof![4 => Just(0u8), 2 => Just(2), 2 => Just(10), 2 => Just(40)];
        let gates = vec(0u8..100, 1..=257);
        let edits = vec((any::<u16>(), 1u16..=4), 0..=2);
        let cap = if l >= 256 { l.max(800) } else { l };
        (sentinel, kind, pct, body(l), gates, edits)
            .prop_map(move |(sentinel, kind, pct, body, gates, edits)| {
                let mut b = body.materialise();
                for (f, c) in edits {
                    if !b.is_empty() {
                        let i = idx(f, b.len() - 1);
                        b[i] = c;
                    }
                }
                let sigma = b.iter().copied().max().unwrap_or(0);
                let mut t: Vec<u8> = Vec::with_capacity(b.len() + b.len() / 4 + 1);
                for (i, &c) in b.iter().enumerate() {
                    if gates[i % gates.len()] >= 100 - pct {
                        t.push(sentinel);
                    }
                    t.push(map_symbol(sentinel, kind, sigma, c));
                }
                t.truncate(cap);
                t.push(sentinel);
                t
            })
            .boxed()
    }

    /// weighted mix of length tiers: (weight, maximal body length)
    pub fn text(tiers: &[(u32, usize)]) -> BoxedStrategy<Vec<u8>> {
        Union::new_weighted(tiers.iter().map(|&(w, l)| (w, text_of(l))).collect::<Vec<_>>()).boxed()
    }

    /// extra alphabet symbols (mostly absent from the text)
    pub fn extra() -> BoxedStrategy<Vec<u8>> {
        prop_oneof![
            3 => Just(Vec::new()),
            3 => vec(any::<u8>(), 1..=3),
            1 => Just(b"ACGTN".to_vec()),
            1 => Just(vec![0xffu8]),
        ]
        .boxed()
    }

    /// a rate that depends on the text length, kept as a recipe until the text is known
    #[derive(Debug, Clone, Copy)]
    pub enum Rate {
        Abs(u32),
        /// n + 1 + idx(frac, ..)  (clamped to the allowed maximum)
        AboveN(u16),
        /// 1 + idx(frac, max - 1)
        Frac(u16),
    }

    impl Rate {
        pub fn resolve(self, n: usize, max: usize) -> u32 {
            let v = match self {
                Rate::Abs(v) => v as usize,
                Rate::AboveN(f) => n + 1 + idx(f, max.saturating_sub(n + 1)),
                Rate::Frac(f) => 1 + idx(f, max - 1),
            };
            v.clamp(1, max) as u32
        }
    }

    /// Occ sampling rate k in [1, 2n] with the classes k<=64, 65..=130, >130, >n forced
    pub fn occ_rate() -> BoxedStrategy<Rate> {
        prop_oneof![
            3 => (1u32..=64).prop_map(Rate::Abs),
            4 => (65u32..=130).prop_map(Rate::Abs),
            1 => (131u32..=700).prop_map(Rate::Abs),
            2 => any::<u16>().prop_map(Rate::AboveN),
            1 => any::<u16>().prop_map(Rate::Frac),
        ]
        .boxed()
    }

    /// suffix array sampling rate s in [1, n+2]
    pub fn sa_rate() -> BoxedStrategy<Rate> {
        prop_oneof![
            1 => Just(Rate::Abs(1)),
            4 => (2u32..=8).prop_map(Rate::Abs),
            2 => (9u32..=64).prop_map(Rate::Abs),
            2 => any::<u16>().prop_map(Rate::Frac),
            1 => any::<u16>().prop_map(Rate::AboveN),
        ]
        .boxed()
    }
}
