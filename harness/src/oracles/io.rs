//! I/O test doubles shared by the C11 / C12 checks.
//!
//! `ChunkedReader` is an in-memory `Read + Seek` that hands out the data in
//! pieces: every `read()` call that can deliver data takes the next entry of a
//! cyclic schedule; an entry `n >= 1` delivers at most `n` bytes, an entry `0`
//! delivers nothing and fails once with `ErrorKind::Interrupted` (which the
//! std line/exact readers must retry transparently).  The schedule is plain
//! data and part of the serialised case.

use std::cell::RefCell;
use std::io::{self, Read, Seek, SeekFrom};
use std::rc::Rc;

/// What the double saw; shared with the check through an `Rc`.
#[derive(Default, Debug)]
pub struct IoLog {
    /// stream offsets at which a `read()` call ended after delivering data
    /// (only the first `MAX_LOG` are kept)
    pub boundaries: Vec<u64>,
    pub reads: u64,
    pub interrupts: u64,
    pub seeks: u64,
}

const MAX_LOG: usize = 1 << 16;

pub type Log = Rc<RefCell<IoLog>>;

pub fn new_log() -> Log {
    Rc::new(RefCell::new(IoLog::default()))
}

pub struct ChunkedReader {
    data: Rc<Vec<u8>>,
    /// logical end of the stream (<= data.len()); used for truncation
    end: usize,
    pos: u64,
    sched: Rc<Vec<u32>>,
    k: usize,
    log: Option<Log>,
}

impl ChunkedReader {
    /// `sched`: cyclic; 0 = inject `Interrupted`, n >= 1 = deliver at most n bytes.
    /// A schedule without any positive entry is replaced by `[1]` (could never deliver).
    pub fn new(data: Rc<Vec<u8>>, end: usize, sched: &[u32], log: Option<Log>) -> ChunkedReader {
        let sched: Vec<u32> = if sched.iter().any(|&s| s > 0) { sched.to_vec() } else { vec![1] };
        let end = end.min(data.len());
        ChunkedReader { data, end, pos: 0, sched: Rc::new(sched), k: 0, log }
    }

    pub fn whole(data: Rc<Vec<u8>>, sched: &[u32], log: Option<Log>) -> ChunkedReader {
        let end = data.len();
        ChunkedReader::new(data, end, sched, log)
    }

    pub fn position(&self) -> u64 {
        self.pos
    }
}

impl Read for ChunkedReader {
    fn read(&mut self, buf: &mut [u8]) -> io::Result<usize> {
        if buf.is_empty() {
            return Ok(0);
        }
        let remaining = (self.end as u64).saturating_sub(self.pos) as usize;
        if remaining == 0 {
            return Ok(0);
        }
        let s = self.sched[self.k % self.sched.len()];
        self.k = (self.k + 1) % self.sched.len();
        if s == 0 {
            if let Some(l) = &self.log {
                l.borrow_mut().interrupts += 1;
            }
            return Err(io::Error::new(io::ErrorKind::Interrupted, "injected EINTR"));
        }
        let n = (s as usize).min(buf.len()).min(remaining);
        let p = self.pos as usize;
        buf[..n].copy_from_slice(&self.data[p..p + n]);
        self.pos += n as u64;
        if let Some(l) = &self.log {
            let mut l = l.borrow_mut();
            l.reads += 1;
            if l.boundaries.len() < MAX_LOG {
                l.boundaries.push(self.pos);
            }
        }
        Ok(n)
    }
}

impl Seek for ChunkedReader {
    fn seek(&mut self, to: SeekFrom) -> io::Result<u64> {
        let target: i128 = match to {
            SeekFrom::Start(n) => n as i128,
            SeekFrom::End(d) => self.end as i128 + d as i128,
            SeekFrom::Current(d) => self.pos as i128 + d as i128,
        };
        if target < 0 || target > u64::MAX as i128 {
            return Err(io::Error::new(io::ErrorKind::InvalidInput, "seek to a negative or overflowing position"));
        }
        self.pos = target as u64; // beyond the end is allowed, reads then return 0 (like a file)
        if let Some(l) = &self.log {
            l.borrow_mut().seeks += 1;
        }
        Ok(self.pos)
    }
}

/// Split `s` into lines whose lengths follow the cyclic list `widths` (each >= 1).
/// An empty `widths` (or an empty `s`) gives one line.
pub fn wrap_cyclic<'a>(s: &'a [u8], widths: &[usize]) -> Vec<&'a [u8]> {
    if widths.is_empty() || s.is_empty() {
        return vec![s];
    }
    let mut out = Vec::new();
    let mut i = 0;
    let mut k = 0;
    while i < s.len() {
        let w = widths[k % widths.len()].max(1);
        k += 1;
        let j = (i + w).min(s.len());
        out.push(&s[i..j]);
        i = j;
    }
    out
}

#[cfg(test)]
mod tests {
    use super::*;
    use std::io::BufRead;

    #[test]
    fn chunked_reader_delivers_everything_in_schedule_sized_pieces() {
        let data = Rc::new(b"hello\nworld\n".to_vec());
        let log = new_log();
        let r = ChunkedReader::whole(data.clone(), &[2, 0, 1], Some(log.clone()));
        let mut br = io::BufReader::with_capacity(3, r);
        let mut s = String::new();
        br.read_line(&mut s).unwrap();
        assert_eq!(s, "hello\n");
        s.clear();
        br.read_line(&mut s).unwrap();
        assert_eq!(s, "world\n");
        s.clear();
        assert_eq!(br.read_line(&mut s).unwrap(), 0);
        assert!(log.borrow().interrupts > 0);
        assert_eq!(*log.borrow().boundaries.last().unwrap(), 12);
    }

    #[test]
    fn wrap() {
        assert_eq!(wrap_cyclic(b"abcdefg", &[3]), vec![&b"abc"[..], b"def", b"g"]);
        assert_eq!(wrap_cyclic(b"abcdefg", &[1, 4]), vec![&b"a"[..], b"bcde", b"f", b"g"]);
        assert_eq!(wrap_cyclic(b"abc", &[]), vec![&b"abc"[..]]);
    }
}
