//! Glue between libFuzzer targets (harness/fuzz) and the property modules: bytes are decoded
//! with `arbitrary::Unstructured` into the *same* Case structs the proptest sub-checks use and
//! handed to the same check() functions, so the semantic oracle sits inside the fuzz target.
//! A failing case aborts the process (libFuzzer then saves the input as a crash artifact).
//! With VERIF_FUZZ_DECODE=<file> the target only decodes its input and writes the replay JSON
//! ({property, subcheck, case}) to <file>; the check script uses this to turn an artifact into
//! an ordinary replay file, which is then confirmed with `vcheck replay`.

use crate::engine::{guarded, install_panic_hook, Stop, B};
use crate::oracles::align::{Mode, ScoreSpec};
use crate::props::{c01, c02, c09, c10};
use arbitrary::{Result as AResult, Unstructured};
use serde::Serialize;
use std::sync::Once;

static INIT: Once = Once::new();

fn init() {
    // libfuzzer-sys installs a panic hook that aborts; ours records the message so that
    // catch_unwind in `guarded` can turn the panic into a verdict.
    INIT.call_once(install_panic_hook);
}

/// VERIF_FUZZ_ONLY=<ID> pins a two-property target to one property
fn only() -> Option<&'static str> {
    static ONLY: std::sync::OnceLock<Option<String>> = std::sync::OnceLock::new();
    ONLY.get_or_init(|| std::env::var("VERIF_FUZZ_ONLY").ok()).as_deref()
}

fn finish<C: Serialize>(property: &str, sub: &str, case: &C, verdict: Result<crate::engine::Pass, Stop>) {
    if let Ok(path) = std::env::var("VERIF_FUZZ_DECODE") {
        let doc = serde_json::json!({"property": property, "subcheck": sub, "case": case, "origin": "libFuzzer artifact"});
        let _ = std::fs::write(path, serde_json::to_string_pretty(&doc).unwrap());
    }
    if let Err(Stop::Fail(msg)) = verdict {
        eprintln!("FUZZ-FAIL property={} subcheck={}: {}", property, sub, msg);
        std::process::abort();
    }
}

fn seq(u: &mut Unstructured, sigma: u8, max: usize) -> AResult<Vec<u8>> {
    let n = u.int_in_range(0..=max)?;
    let mut v = Vec::with_capacity(n);
    for _ in 0..n {
        v.push(b'a' + u.int_in_range(0..=sigma - 1)?);
    }
    Ok(v)
}

/// y derived from x by a few edits (so that k-mer backbones with gaps arise) or independent
fn seq_pair(u: &mut Unstructured, sigma: u8, max: usize) -> AResult<(Vec<u8>, Vec<u8>)> {
    let x = seq(u, sigma, max)?;
    if u.ratio(1, 2)? {
        let mut y = x.clone();
        let edits = u.int_in_range(0..=4)?;
        for _ in 0..edits {
            let c = b'a' + u.int_in_range(0..=sigma - 1)?;
            match u.int_in_range(0..=2)? {
                0 if !y.is_empty() => {
                    let i = u.int_in_range(0..=y.len() - 1)?;
                    y[i] = c;
                }
                1 => {
                    let i = u.int_in_range(0..=y.len())?;
                    y.insert(i, c);
                }
                _ if !y.is_empty() => {
                    let i = u.int_in_range(0..=y.len() - 1)?;
                    y.remove(i);
                }
                _ => {}
            }
        }
        y.truncate(max);
        Ok((x, y))
    } else {
        let y = seq(u, sigma, max)?;
        Ok((x, y))
    }
}

fn clip(u: &mut Unstructured) -> AResult<Option<i32>> {
    Ok(match u.int_in_range(0..=8)? {
        0..=2 => None,
        3..=4 => Some(0),
        _ => Some(-u.int_in_range(1..=8)?),
    })
}

fn spec(u: &mut Unstructured, sigma: u8) -> AResult<ScoreSpec> {
    let s = sigma as usize;
    let style = u.int_in_range(0..=3)?;
    let mut table = Vec::with_capacity(s * s);
    let (m0, mm0) = (u.int_in_range(0..=5)?, -u.int_in_range(0..=6)?);
    for k in 0..s * s {
        let diag = k / s == k % s;
        table.push(match style {
            0 => {
                if diag {
                    1
                } else {
                    -1
                }
            }
            1 => {
                if diag {
                    m0
                } else {
                    mm0
                }
            }
            2 => {
                if diag {
                    u.int_in_range(1..=6)?
                } else {
                    -u.int_in_range(0..=6)?
                }
            }
            _ => u.int_in_range(-6..=6)?,
        });
    }
    Ok(ScoreSpec { sigma, table, gap_open: -u.int_in_range(0..=6)?, gap_extend: -u.int_in_range(0..=4)?, clips: [clip(u)?, clip(u)?, clip(u)?, clip(u)?] })
}

fn mode(u: &mut Unstructured) -> AResult<Mode> {
    Ok(match u.int_in_range(0..=5)? {
        0..=2 => Mode::Custom,
        3 => Mode::Global,
        4 => Mode::Semiglobal,
        _ => Mode::Local,
    })
}

fn c01_case(u: &mut Unstructured) -> AResult<c01::Case> {
    let sigma = u.int_in_range(1..=4)?;
    let sp = spec(u, sigma)?;
    let max = if u.ratio(3, 4)? { 8 } else { 30 };
    let nh = if u.ratio(1, 2)? { 0 } else { u.int_in_range(1..=3)? };
    let mut history = Vec::new();
    for _ in 0..nh {
        let (x, y) = seq_pair(u, sigma, max)?;
        history.push(c01::Call { mode: mode(u)?, x: B(x), y: B(y) });
    }
    let (x, y) = seq_pair(u, sigma, max)?;
    let capacity = if u.ratio(1, 4)? { Some((u.int_in_range(0..=3)?, u.int_in_range(0..=3)?)) } else { None };
    Ok(c01::Case { spec: sp, capacity, history, call: c01::Call { mode: mode(u)?, x: B(x), y: B(y) }, match_scores: None })
}

fn entry(u: &mut Unstructured) -> AResult<c02::Entry> {
    let mask = |u: &mut Unstructured| -> AResult<Vec<bool>> {
        let n = u.int_in_range(0..=8)?;
        (0..n).map(|_| u.arbitrary::<bool>()).collect()
    };
    Ok(match u.int_in_range(0..=10)? {
        0 | 1 => c02::Entry::Custom,
        2 => c02::Entry::CustomPrehash,
        3 => c02::Entry::Matches { mask: mask(u)? },
        4 | 5 => c02::Entry::Expanded { mask: mask(u)?, allowed_mismatches: if u.ratio(1, 3)? { None } else { Some(u.int_in_range(0..=2)?) }, union: u.arbitrary()? },
        6 => c02::Entry::MatchPath { chain: if u.arbitrary()? { c02::Chain::Lcskpp } else { c02::Chain::Sdpkpp }, from: u.arbitrary()?, to: u.arbitrary()? },
        7 => c02::Entry::Global,
        8 => c02::Entry::Semiglobal,
        9 => c02::Entry::SemiglobalPrehash,
        _ => c02::Entry::Local,
    })
}

fn c02_case(u: &mut Unstructured) -> AResult<c02::Case> {
    let sigma = u.int_in_range(1..=3)?;
    let sp = spec(u, sigma)?;
    let max = if u.ratio(1, 2)? { 14 } else { 50 };
    let nh = if u.ratio(2, 3)? { 0 } else { u.int_in_range(1..=2)? };
    let mut history = Vec::new();
    for _ in 0..nh {
        let (x, y) = seq_pair(u, sigma, max)?;
        history.push(c02::BCall { entry: entry(u)?, x: B(x), y: B(y), shared: None });
    }
    let (x, y) = seq_pair(u, sigma, max)?;
    Ok(c02::Case { spec: sp, with_match_scores: u.arbitrary()?, k: u.int_in_range(1..=6)?, w: u.int_in_range(0..=8)?, history, call: c02::BCall { entry: entry(u)?, x: B(x), y: B(y), shared: None } })
}

/// one libFuzzer input for the alignment target: first choice selects C01 or C02
pub fn align_one(u: &mut Unstructured) {
    init();
    let which = match only() {
        Some("C01") => true,
        Some("C02") => false,
        _ => u.ratio(1, 2).unwrap_or(false),
    };
    if which {
        if let Ok(c) = c01_case(u) {
            let v = guarded(c01::check, &c);
            finish("C01", "C01/small-definition", &c, v);
        }
    } else if let Ok(c) = c02_case(u) {
        let v = guarded(c02::check, &c);
        finish("C02", "C02/random", &c, v);
    }
}

fn myers_case(u: &mut Unstructured, k255: bool) -> AResult<c09::MyersCase> {
    let sigma: u8 = u.int_in_range(1..=4)?;
    let m = match u.int_in_range(0..=6)? {
        0 | 1 => u.int_in_range(1..=9)?,
        2 => u.int_in_range(15..=17)?,
        3 => u.int_in_range(31..=33)?,
        4 => u.int_in_range(63..=65)?,
        _ => u.int_in_range(1..=130)?,
    };
    let ambiguity = u.ratio(1, 3)?;
    let mut pattern = Vec::with_capacity(m);
    for _ in 0..m {
        pattern.push(if ambiguity && u.ratio(1, 6)? { b'n' } else { b'a' + u.int_in_range(0..=sigma - 1)? });
    }
    // text: random flank + (possibly edited) copy + random flank
    let mut text = seq(u, sigma, 40)?;
    if u.ratio(2, 3)? {
        let mut copy: Vec<u8> = pattern.iter().map(|&c| if c == b'n' { b'a' } else { c }).collect();
        let edits = u.int_in_range(0..=5)?;
        for _ in 0..edits {
            let c = b'a' + u.int_in_range(0..=sigma - 1)?;
            match u.int_in_range(0..=2)? {
                0 if !copy.is_empty() => {
                    let i = u.int_in_range(0..=copy.len() - 1)?;
                    copy[i] = c;
                }
                1 => {
                    let i = u.int_in_range(0..=copy.len())?;
                    copy.insert(i, c);
                }
                _ if !copy.is_empty() => {
                    let i = u.int_in_range(0..=copy.len() - 1)?;
                    copy.remove(i);
                }
                _ => {}
            }
        }
        text.extend(copy);
    }
    text.extend(seq(u, sigma, 40)?);
    let mut wildcards = Vec::new();
    if ambiguity && u.ratio(1, 2)? && !text.is_empty() {
        wildcards.push(b'*');
        let i = u.int_in_range(0..=text.len() - 1)?;
        text[i] = b'*';
    }
    let ambig = if ambiguity {
        let mut e = vec![b'a' + u.int_in_range(0..=sigma - 1)?];
        if u.arbitrary()? {
            e.push(b'a' + u.int_in_range(0..=sigma - 1)?);
        }
        vec![(b'n', B(e))]
    } else {
        vec![]
    };
    let k: u64 = match u.int_in_range(0..=9)? {
        0 => 0,
        1..=4 => u.int_in_range(0..=3)?,
        5..=7 => u.int_in_range(0..=(m as u64 + 2).min(255))?,
        8 => u.int_in_range(0..=255)?,
        _ => {
            if k255 {
                u.int_in_range(0..=255)?
            } else {
                *u.choose(&[256u64, 1000, u64::MAX - 64, u64::MAX - 1, u64::MAX])?
            }
        }
    };
    let width = *u.choose(&[8u8, 16, 32, 64])?;
    Ok(c09::MyersCase { pattern: B(pattern), text: B(text), k, width, ambig, wildcards: B(wildcards), k_is_best: u.ratio(1, 4)? })
}

/// one libFuzzer input for the Myers target: C09 (find_all_end/distance) or C10 (traceback APIs)
pub fn myers_one(u: &mut Unstructured) {
    init();
    let which = match only() {
        Some("C09") => true,
        Some("C10") => false,
        _ => u.ratio(1, 2).unwrap_or(false),
    };
    if which {
        if let Ok(c) = myers_case(u, false) {
            let v = guarded(c09::check_myers, &c);
            finish("C09", "C09/myers", &c, v);
        }
    } else {
        let r = (|| -> AResult<c10::Case> {
            let base = myers_case(u, true)?;
            let sigma = 4;
            let nm = u.int_in_range(0..=2)?;
            let mut more = Vec::new();
            for _ in 0..nm {
                more.push((B(seq(u, sigma, 60)?), u.int_in_range(0..=6u64)?));
            }
            let ns = u.int_in_range(0..=10)?;
            let mut script = Vec::new();
            for _ in 0..ns {
                script.push(match u.int_in_range(0..=6)? {
                    0..=2 => c10::LazyOp::Next,
                    3..=5 => c10::LazyOp::At(u.arbitrary()?),
                    _ => c10::LazyOp::Unsearched(u.int_in_range(0..=3)?),
                });
            }
            Ok(c10::Case { base, more, script })
        })();
        if let Ok(c) = r {
            let v = guarded(c10::check, &c);
            finish("C10", "C10/traceback", &c, v);
        }
    }
}

/// one libFuzzer input for the FASTA/FASTQ byte-level target (C11, "arbitrary bytes" clause): the first
/// bytes choose the BufReader capacity, the read() schedule and the construction path, the rest is the file
pub fn fastx_one(u: &mut Unstructured) {
    init();
    use crate::props::c11;
    let r = (|| -> AResult<c11::BytesCase> {
        let cap = match u.int_in_range(0..=3)? {
            0 => 1,
            1 => u.int_in_range(2..=64)?,
            _ => 8192,
        };
        let ns = u.int_in_range(1..=4)?;
        let mut sched = Vec::new();
        for _ in 0..ns {
            sched.push(match u.int_in_range(0..=9)? {
                0 => 0, // one injected ErrorKind::Interrupted
                1..=5 => u.int_in_range(1..=3)?,
                6..=8 => u.int_in_range(1..=50)?,
                _ => 9000,
            });
        }
        if sched.iter().all(|&s| s == 0) {
            sched.push(1);
        }
        let path = u.int_in_range(0..=3)?;
        let n = u.len();
        let rest = u.bytes(n)?;
        Ok(c11::BytesCase { data: B(rest.to_vec()), io: c11::Io { cap, sched, path } })
    })();
    if let Ok(c) = r {
        let v = guarded(c11::check_bytes, &c);
        finish("C11", "C11/bytes", &c, v);
    }
}

/// C13: bytes through the BED reader and the GFF readers, judged by the strict line parser
pub fn tabular_one(u: &mut Unstructured) {
    init();
    use crate::props::c13::rawbytes;
    let r = (|| -> AResult<rawbytes::BytesCase> {
        let kind = u.int_in_range(0..=3)?;
        let n = u.len();
        let rest = u.bytes(n)?;
        Ok(rawbytes::BytesCase { kind, data: B(rest.to_vec()) })
    })();
    if let Ok(c) = r {
        let v = guarded(rawbytes::check, &c);
        finish("C13", "C13/raw-bytes", &c, v);
    }
}

// ---------------------------------------------------------------------------
// histories target: operation sequences on containers / trees / graphs (C07, C16, C18). The input bytes
// are the history itself (one or a few bytes per operation), so that libFuzzer's mutations - insert,
// delete, duplicate, splice a run of bytes - are insertions, deletions and repetitions of operations.

fn c07_case(u: &mut Unstructured) -> AResult<crate::props::c07::Case> {
    use crate::props::c07::{Case, KeyT, Op};
    let (key, offset) = match u.int_in_range(0..=7)? {
        0..=2 => (KeyT::I64, 0i64),
        3 => (KeyT::U8, 0),
        4 => (KeyT::I64, -100),
        5 => (KeyT::I64, 1i64 << 40),
        6 => (KeyT::I64, i64::MIN),
        _ => (KeyT::I64, i64::MAX - 255),
    };
    // geometry as in the proptest strategy: start + width never exceeds 255 (u8 keys, offset i64::MAX-255)
    let r: u16 = *u.choose(&[5u16, 25, 200])?;
    let w: u16 = *u.choose(&[1u16, 3, 12, 55])?;
    let nref: u8 = u.int_in_range(1..=3)?;
    let mut ops = Vec::new();
    while !u.is_empty() && ops.len() < 160 {
        ops.push(match u.int_in_range(0..=9)? {
            0..=4 => Op::Insert { start: u.int_in_range(0..=r)?, width: u.int_in_range(1..=w)?, data: u.arbitrary()?, refid: u.int_in_range(0..=nref - 1)? },
            5..=8 => Op::Find { start: u.int_in_range(0..=(r + 3).min(200))?, width: u.int_in_range(1..=w.max(2))?, refid: u.int_in_range(0..=nref.min(3))?, index_first: u.ratio(4, 5)? },
            _ => Op::Index,
        });
    }
    Ok(Case { key, offset, ops })
}

fn c16_case(u: &mut Unstructured) -> AResult<crate::props::c16::history::Case> {
    use crate::props::c16::history::{Case, Step};
    use crate::props::c16::Score;
    let sigma: u8 = u.int_in_range(1..=3)?;
    let n = sigma as usize;
    let score = match u.int_in_range(0..=4)? {
        0..=1 => Score::Simple { m: u.int_in_range(0..=3)?, x: -u.int_in_range(0..=3)? },
        2 => Score::Simple { m: u.int_in_range(1..=3)?, x: -u.int_in_range(0..=3)? },
        3 => {
            // arbitrary (possibly asymmetric) table
            let mut t = Vec::with_capacity(n * n);
            for _ in 0..n * n {
                t.push(u.int_in_range(-3..=3)?);
            }
            Score::Table { sigma, t }
        }
        _ => {
            // symmetric, positive diagonal, non-positive elsewhere (identity is the unique optimum)
            let mut t = vec![0i32; n * n];
            for i in 0..n {
                for j in i..n {
                    let v = if i == j { u.int_in_range(1..=3)? } else { -u.int_in_range(0..=3)? };
                    t[i * n + j] = v;
                    t[j * n + i] = v;
                }
            }
            Score::Table { sigma, t }
        }
    };
    let gap = -u.int_in_range(0..=3)?;
    let gap_extend = -u.int_in_range(0..=5)?;
    let mut reference = seq(u, sigma, 14)?;
    if reference.is_empty() {
        reference.push(b'a');
    }
    let ns = u.int_in_range(0..=5)?;
    let mut steps = Vec::new();
    for _ in 0..ns {
        let mut q = match u.int_in_range(0..=3)? {
            0 => reference.clone(),
            1 => seq(u, sigma, 14)?,
            _ => {
                let mut y = reference.clone();
                for _ in 0..u.int_in_range(1..=4)? {
                    let c = b'a' + u.int_in_range(0..=sigma - 1)?;
                    match u.int_in_range(0..=2)? {
                        0 if !y.is_empty() => {
                            let i = u.int_in_range(0..=y.len() - 1)?;
                            y[i] = c;
                        }
                        1 => {
                            let i = u.int_in_range(0..=y.len())?;
                            y.insert(i, c);
                        }
                        _ if !y.is_empty() => {
                            let i = u.int_in_range(0..=y.len() - 1)?;
                            y.remove(i);
                        }
                        _ => {}
                    }
                }
                y
            }
        };
        if q.is_empty() {
            q.push(b'a');
        }
        let banded = if u.ratio(3, 10)? { Some(u.int_in_range(0..=3usize)?) } else { None };
        let mut prelude = Vec::new();
        if u.ratio(1, 4)? {
            for _ in 0..u.int_in_range(1..=2)? {
                prelude.push(u.int_in_range(0..=3u8)?);
            }
        }
        steps.push(Step { query: B(q), banded, prelude });
    }
    Ok(Case { reference: B(reference), score, gap, gap_extend, steps })
}

fn c18_case(u: &mut Unstructured) -> AResult<crate::props::c18::bitenc::Case> {
    use crate::props::c18::bitenc::{Case, Op};
    let width: u8 = u.int_in_range(1..=8)?;
    let mut ops = Vec::new();
    while !u.is_empty() && ops.len() < 60 {
        ops.push(match u.int_in_range(0..=11)? {
            0..=3 => Op::Push(u.arbitrary()?),
            4..=6 => Op::PushValues(u.int_in_range(0..=70)?, u.arbitrary()?),
            7..=8 => Op::Set(u.arbitrary()?, u.arbitrary()?),
            9 => Op::Get(if u.ratio(1, 4)? { u.arbitrary()? } else { u.int_in_range(0..=200u64)? }),
            10 => Op::Iter,
            _ => Op::Clear,
        });
    }
    Ok(Case { width, ops })
}

/// one libFuzzer input for the histories target: C07 (interval trees + annotation maps), C16 (POA graph
/// growth) or C18 (BitEnc)
pub fn histories_one(u: &mut Unstructured) {
    init();
    use crate::props::{c07, c16, c18};
    let which = match only() {
        Some("C07") => 0,
        Some("C16") => 1,
        Some("C18") => 2,
        _ => u.int_in_range(0..=2).unwrap_or(0),
    };
    match which {
        0 => {
            if let Ok(c) = c07_case(u) {
                let v = guarded(c07::check, &c);
                finish("C07", "C07/history", &c, v);
            }
        }
        1 => {
            if let Ok(c) = c16_case(u) {
                let v = guarded(c16::history::check, &c);
                finish("C16", "C16/history", &c, v);
            }
        }
        _ => {
            if let Ok(c) = c18_case(u) {
                let v = guarded(c18::bitenc::check, &c);
                finish("C18", "C18/bitenc", &c, v);
            }
        }
    }
}
