//! Measures the worst observed numerical errors of the C14/C15 checks over N generated cases
//! (not part of any check; used to compare the measured errors with the property's tolerances).
//! usage: cargo run --release --example measure_c14_c15 -- [cases] [seed]

use proptest::strategy::{Strategy, ValueTree};
use proptest::test_runner::{Config, RngAlgorithm, RngSeed, TestRunner};
use vlib::engine::{Stop, Tier};
use vlib::props::{c14, c15};

fn runner(seed: u64) -> TestRunner {
    TestRunner::new(Config { rng_seed: RngSeed::Fixed(seed), rng_algorithm: RngAlgorithm::ChaCha, failure_persistence: None, ..Config::default() })
}

fn worst<C: std::fmt::Debug>(name: &str, n: usize, seed: u64, strat: proptest::strategy::BoxedStrategy<C>, eval: impl Fn(&C) -> Result<f64, Stop>) {
    let mut r = runner(seed);
    let mut w = 0.0f64;
    let mut at = String::new();
    for _ in 0..n {
        let c = strat.new_tree(&mut r).unwrap().current();
        match eval(&c) {
            Ok(e) => {
                if e > w {
                    w = e;
                    at = format!("{:?}", c);
                    at.truncate(300);
                }
            }
            Err(Stop::Fail(m)) => {
                println!("{}: FAIL {}", name, m);
                return;
            }
            Err(Stop::Skip(_)) => {}
        }
    }
    println!("{:<28} worst {:.3e}   at {}", name, w, at);
}

fn main() {
    vlib::engine::install_panic_hook();
    let args: Vec<String> = std::env::args().collect();
    let n: usize = args.get(1).and_then(|s| s.parse().ok()).unwrap_or(200_000);
    let seed: u64 = args.get(2).and_then(|s| s.parse().ok()).unwrap_or(1);
    for tier in [Tier::Quick, Tier::Thorough] {
        println!("-- C14 ({:?} generator), tolerances: viterbi {:e}, likelihood {:e}", tier, c14::TOL_VITERBI, c14::TOL_LIKELIHOOD);
        worst("C14 viterbi vs own path", n, seed, c14::strat(tier), |c| c14::eval(c).map(|x| x.1.viterbi_vs_path));
        worst("C14 viterbi vs max", n, seed, c14::strat(tier), |c| c14::eval(c).map(|x| x.1.viterbi_vs_max));
        worst("C14 forward vs path sum", n, seed, c14::strat(tier), |c| c14::eval(c).map(|x| x.1.forward_vs_sum));
        worst("C14 backward vs path sum", n, seed, c14::strat(tier), |c| c14::eval(c).map(|x| x.1.backward_vs_sum));
        worst("C14 forward vs backward", n, seed, c14::strat(tier), |c| c14::eval(c).map(|x| x.1.forward_vs_backward));
    }
    println!("-- C15, tolerance {:e} of the largest operand (conversions: relative)", c15::TOL);
    worst("C15 binary", n, seed, c15::binary::strat(Tier::Quick), |c| c15::binary::eval(c).map(|x| x.1));
    worst("C15 lists", n / 4, seed, c15::lists::strat(Tier::Quick), |c| c15::lists::eval(c).map(|x| x.1));
    worst("C15 integrate", n / 4, seed, c15::integrate::strat(Tier::Quick), |c| c15::integrate::eval(c).map(|x| x.1));
    worst("C15 convert (fastexp paths)", n, seed, c15::convert::strat(Tier::Quick), |c| c15::convert::eval(c).map(|x| x.1));
}
